//! hookdiff [--sections A,B] [--dump SECTION] [--seed N]
//!
//! The monitors run against the crate built with the `verif-hooks` feature; users ship it without.  The feature is
//! supposed to add derives and nothing else.  This program drives the public API through deterministic workloads, one
//! section per stage, and prints a digest per section (or, with --dump, one line per observation).  ./check builds it
//! twice – with and without the feature – and compares.
use pc_keyboard::layouts::*;
use pc_keyboard::*;
use std::panic::{catch_unwind, AssertUnwindSafe};

struct Rng(u64);
impl Rng {
    fn next(&mut self) -> u64 {
        self.0 = self.0.wrapping_add(0x9E37_79B9_7F4A_7C15);
        let mut z = self.0;
        z = (z ^ (z >> 30)).wrapping_mul(0xBF58_476D_1CE4_E5B9);
        z = (z ^ (z >> 27)).wrapping_mul(0x94D0_49BB_1331_11EB);
        z ^ (z >> 31)
    }
}

struct Out {
    dump: bool,
    h: u64,
    n: u64,
}
impl Out {
    fn item(&mut self, key: &dyn Fn() -> String, val: u64) {
        self.n += 1;
        self.h = (self.h ^ val).wrapping_mul(0x0000_0100_0000_01B3).rotate_left(17) ^ self.n;
        if self.dump {
            println!("{}\t{:x}", key(), val);
        }
    }
}

fn guarded<R>(f: impl FnOnce() -> R) -> Option<R> {
    catch_unwind(AssertUnwindSafe(f)).ok()
}
fn enc_dk(d: &Option<DecodedKey>) -> u64 {
    match d {
        None => 1,
        Some(DecodedKey::Unicode(c)) => 0x1_0000_0000 | *c as u64,
        Some(DecodedKey::RawKey(k)) => 0x2_0000_0000 | *k as u64,
    }
}
fn enc_res(r: &Option<Result<Option<KeyEvent>, Error>>) -> u64 {
    match r {
        None => 7, // panicked
        Some(Ok(None)) => 2,
        Some(Ok(Some(e))) => 0x100 | ((e.code as u64) << 16) | (e.state as u64) << 4,
        Some(Err(e)) => 0x10 | *e as u64,
    }
}
fn enc_mods(m: &Modifiers) -> u64 {
    (m.lshift as u64) | (m.rshift as u64) << 1 | (m.lctrl as u64) << 2 | (m.rctrl as u64) << 3 | (m.numlock as u64) << 4 | (m.capslock as u64) << 5 | (m.lalt as u64) << 6 | (m.ralt as u64) << 7 | (m.rctrl2 as u64) << 8
}

/// every key code either scancode set can produce (the crate has no iterator over KeyCode)
fn universe() -> Vec<KeyCode> {
    let mut v: Vec<KeyCode> = Vec::new();
    let mut add = |r: Result<Option<KeyEvent>, Error>| {
        if let Ok(Some(e)) = r {
            if !v.contains(&e.code) {
                v.push(e.code);
            }
        }
    };
    for pre in [&[][..], &[0xE0][..], &[0xE1][..], &[0xE1, 0x14][..], &[0xE1, 0x1D][..]] {
        for c in 0..=255u8 {
            let _ = guarded(|| {
                let mut d = ScancodeSet2::new();
                let mut last = Ok(None);
                for b in pre.iter().chain([c].iter()) {
                    last = d.advance_state(*b);
                }
                last
            })
            .map(&mut add);
            let _ = guarded(|| {
                let mut d = ScancodeSet1::new();
                let mut last = Ok(None);
                for b in pre.iter().chain([c].iter()) {
                    last = d.advance_state(*b);
                }
                last
            })
            .map(&mut add);
        }
    }
    v.sort_by_key(|k| *k as u8);
    v
}

fn scan<S: ScancodeSet>(out: &mut Out, fresh: fn() -> S, seed: u64) {
    // every stream of one, two and (strided) three bytes from a fresh decoder
    for a in 0..=255u8 {
        for b in 0..=255u8 {
            let r = guarded(|| {
                let mut d = fresh();
                (d.advance_state(a), d.advance_state(b))
            });
            out.item(&|| format!("[{:02X} {:02X}]", a, b), enc_res(&r.as_ref().map(|x| x.0.clone())) << 32 | enc_res(&r.map(|x| x.1)));
        }
    }
    for a in [0xE0u8, 0xE1, 0xF0, 0x00, 0xFA, 0x14, 0x1D] {
        for b in 0..=255u8 {
            for c in 0..=255u8 {
                let r = guarded(|| {
                    let mut d = fresh();
                    let _ = d.advance_state(a);
                    let _ = d.advance_state(b);
                    d.advance_state(c)
                });
                out.item(&|| format!("[{:02X} {:02X} {:02X}]", a, b, c), enc_res(&r));
            }
        }
    }
    // one long stream on one decoder: random bytes, prefix-heavy
    let mut rng = Rng(seed ^ 0x5CA7);
    let r = guarded(|| {
        let mut d = fresh();
        let mut acc = Vec::new();
        for _ in 0..400_000 {
            let x = rng.next();
            let b = match x % 4 {
                0 => [0xE0u8, 0xE1, 0xF0][(x >> 8) as usize % 3],
                _ => (x >> 16) as u8,
            };
            acc.push((b, d.advance_state(b)));
        }
        acc
    });
    match r {
        Some(acc) => {
            for (i, (b, r)) in acc.into_iter().enumerate() {
                out.item(&|| format!("stream#{} byte {:02X}", i, b), enc_res(&Some(r)));
            }
        }
        None => out.item(&|| "stream panicked".into(), 7),
    }
}

fn frames(out: &mut Out, seed: u64) {
    for w in 0..=u16::MAX {
        let r = guarded(|| Ps2Decoder::new().add_word(w));
        out.item(&|| format!("add_word({:04X})", w), match r {
            None => 7,
            Some(Ok(b)) => 0x100 | b as u64,
            Some(Err(e)) => 0x10 | e as u64,
        });
    }
    let mut rng = Rng(seed ^ 0xF4A3);
    let r = guarded(|| {
        let mut d = Ps2Decoder::new();
        let mut acc = Vec::new();
        for i in 0..600_000u32 {
            let x = rng.next();
            if x % 997 == 0 {
                d.clear();
            }
            // mostly well-formed frames bit by bit, some noise
            let bit = x & 1 == 1;
            acc.push(match d.add_bit(bit) {
                Ok(None) => 2u64,
                Ok(Some(b)) => 0x100 | b as u64,
                Err(e) => 0x10 | e as u64,
            });
            let _ = i;
        }
        acc
    });
    match r {
        Some(acc) => {
            for (i, v) in acc.into_iter().enumerate() {
                out.item(&|| format!("bit#{}", i), v);
            }
        }
        None => out.item(&|| "bit stream panicked".into(), 7),
    }
    // every frame bit by bit after every class of frame
    for prev in [0x402u16, 0x7FF, 0x000, 0x602] {
        for w in 0..2048u16 {
            let r = guarded(|| {
                let mut d = Ps2Decoder::new();
                for i in 0..11 {
                    let _ = d.add_bit((prev >> i) & 1 == 1);
                }
                let mut last = Ok(None);
                for i in 0..11 {
                    last = d.add_bit((w >> i) & 1 == 1);
                }
                last
            });
            out.item(&|| format!("frame {:03X} after {:03X}", w, prev), match r {
                None => 7,
                Some(Ok(None)) => 2,
                Some(Ok(Some(b))) => 0x100 | b as u64,
                Some(Err(e)) => 0x10 | e as u64,
            });
        }
    }
}

fn events(out: &mut Out, uni: &[KeyCode], seed: u64) {
    let mods = [KeyCode::LShift, KeyCode::RShift, KeyCode::LControl, KeyCode::RControl, KeyCode::LAlt, KeyCode::RAltGr, KeyCode::RControl2, KeyCode::CapsLock, KeyCode::NumpadLock];
    let states = [KeyState::Down, KeyState::Up, KeyState::SingleShot];
    // every ordered pair and triple of modifier events from a fresh decoder, then a probe key
    let evs: Vec<(KeyCode, KeyState)> = mods.iter().flat_map(|k| states.iter().map(move |s| (*k, *s))).collect();
    for a in evs.iter() {
        for b in evs.iter() {
            for c in evs.iter() {
                let r = guarded(|| {
                    let mut kb = Keyboard::new(ScancodeSet2::new(), Us104Key, HandleControl::MapLettersToUnicode);
                    let x = kb.process_keyevent(KeyEvent::new(a.0, a.1));
                    let y = kb.process_keyevent(KeyEvent::new(b.0, b.1));
                    let z = kb.process_keyevent(KeyEvent::new(c.0, c.1));
                    let p = kb.process_keyevent(KeyEvent::new(KeyCode::A, KeyState::Down));
                    (enc_dk(&x) ^ enc_dk(&y).rotate_left(9) ^ enc_dk(&z).rotate_left(18) ^ enc_dk(&p).rotate_left(27), enc_mods(kb.get_modifiers()))
                });
                out.item(&|| format!("{:?}{:?} {:?}{:?} {:?}{:?}", a.1, a.0, b.1, b.0, c.1, c.0), r.map(|(d, m)| d.rotate_left(12) ^ m).unwrap_or(7));
            }
        }
    }
    // long random histories over every layout, all keys, both modes
    let mut rng = Rng(seed ^ 0xE7E7);
    macro_rules! run {
        ($name:expr, $l:expr) => {{
            let r = guarded(|| {
                let mut kb = Keyboard::new(ScancodeSet1::new(), $l, HandleControl::Ignore);
                let mut acc = Vec::new();
                for _ in 0..60_000 {
                    let x = rng.next();
                    if x % 41 == 0 {
                        kb.set_ctrl_handling(if x & 256 == 0 { HandleControl::Ignore } else { HandleControl::MapLettersToUnicode });
                    }
                    let k = if x % 3 == 0 { mods[(x >> 8) as usize % mods.len()] } else { uni[(x >> 8) as usize % uni.len()] };
                    let st = states[(x >> 24) as usize % 5 % 3];
                    let d = kb.process_keyevent(KeyEvent::new(k, st));
                    acc.push((k, st, enc_dk(&d), enc_mods(kb.get_modifiers())));
                }
                acc
            });
            match r {
                Some(acc) => {
                    for (i, (k, st, d, m)) in acc.into_iter().enumerate() {
                        out.item(&|| format!("{}#{} {:?}({:?})", $name, i, st, k), d.rotate_left(12) ^ m);
                    }
                }
                None => out.item(&|| format!("{} history panicked", $name), 7),
            }
        }};
    }
    run!("Us104Key", Us104Key);
    run!("Uk105Key", Uk105Key);
    run!("De105Key", De105Key);
    run!("Azerty", Azerty);
    run!("No105Key", No105Key);
    run!("FiSe105Key", FiSe105Key);
    run!("Jis109Key", Jis109Key);
    run!("Colemak", Colemak);
    run!("Dvorak104Key", Dvorak104Key);
    run!("DVP104Key", DVP104Key);
    run!("AnyLayout", AnyLayout::De105Key(De105Key));
}

fn layouts(out: &mut Out, uni: &[KeyCode]) {
    fn cube(out: &mut Out, name: &str, l: &dyn KeyboardLayout, uni: &[KeyCode]) {
        for k in uni {
            for mode in [HandleControl::Ignore, HandleControl::MapLettersToUnicode] {
                for m in 0..512u16 {
                    let mods = Modifiers { lshift: m & 1 != 0, rshift: m & 2 != 0, lctrl: m & 4 != 0, rctrl: m & 8 != 0, numlock: m & 16 != 0, capslock: m & 32 != 0, lalt: m & 64 != 0, ralt: m & 128 != 0, rctrl2: m & 256 != 0 };
                    let r = guarded(|| l.map_keycode(*k, &mods, mode));
                    out.item(&|| format!("{} {:?} {:03x} {:?}", name, k, m, mode), r.map(|d| enc_dk(&Some(d))).unwrap_or(7));
                }
            }
        }
    }
    cube(out, "Us104Key", &Us104Key, uni);
    cube(out, "Uk105Key", &Uk105Key, uni);
    cube(out, "De105Key", &De105Key, uni);
    cube(out, "Azerty", &Azerty, uni);
    cube(out, "No105Key", &No105Key, uni);
    cube(out, "FiSe105Key", &FiSe105Key, uni);
    cube(out, "Jis109Key", &Jis109Key, uni);
    cube(out, "Colemak", &Colemak, uni);
    cube(out, "Dvorak104Key", &Dvorak104Key, uni);
    cube(out, "DVP104Key", &DVP104Key, uni);
    for (n, a) in [
        ("Any:Us104Key", AnyLayout::Us104Key(Us104Key)),
        ("Any:Uk105Key", AnyLayout::Uk105Key(Uk105Key)),
        ("Any:De105Key", AnyLayout::De105Key(De105Key)),
        ("Any:Azerty", AnyLayout::Azerty(Azerty)),
        ("Any:No105Key", AnyLayout::No105Key(No105Key)),
        ("Any:FiSe105Key", AnyLayout::FiSe105Key(FiSe105Key)),
        ("Any:Jis109Key", AnyLayout::Jis109Key(Jis109Key)),
        ("Any:Colemak", AnyLayout::Colemak(Colemak)),
        ("Any:Dvorak104Key", AnyLayout::Dvorak104Key(Dvorak104Key)),
        ("Any:DVP104Key", AnyLayout::DVP104Key(DVP104Key)),
    ] {
        cube(out, n, &a, uni);
        let r: &AnyLayout = &a;
        cube(out, &format!("&{}", n), &r, uni);
    }
    // the predicates
    for m in 0..512u16 {
        let mods = Modifiers { lshift: m & 1 != 0, rshift: m & 2 != 0, lctrl: m & 4 != 0, rctrl: m & 8 != 0, numlock: m & 16 != 0, capslock: m & 32 != 0, lalt: m & 64 != 0, ralt: m & 128 != 0, rctrl2: m & 256 != 0 };
        out.item(&|| format!("predicates {:03x}", m), (mods.is_shifted() as u64) | (mods.is_ctrl() as u64) << 1 | (mods.is_alt() as u64) << 2 | (mods.is_altgr() as u64) << 3 | (mods.is_caps() as u64) << 4);
    }
}

fn keyboard(out: &mut Out, seed: u64) {
    let mut rng = Rng(seed ^ 0xCB0D);
    macro_rules! run {
        ($name:expr, $set:expr) => {{
            let r = guarded(|| {
                let mut kb = Keyboard::new($set, Uk105Key, HandleControl::MapLettersToUnicode);
                let mut acc = Vec::new();
                for _ in 0..300_000 {
                    let x = rng.next();
                    let r = match x % 7 {
                        0 | 1 => kb.add_byte((x >> 8) as u8),
                        2 | 3 | 4 => kb.add_bit(x & 256 != 0),
                        5 => kb.add_word((x >> 8) as u16 & if x & (1 << 40) == 0 { 0x7FF } else { 0xFFFF }),
                        _ => {
                            if x & 0xF00 == 0 {
                                kb.clear();
                            }
                            Ok(None)
                        }
                    };
                    let d = match &r {
                        Ok(Some(e)) => kb.process_keyevent(e.clone()),
                        _ => None,
                    };
                    acc.push(enc_res(&Some(r)).rotate_left(20) ^ enc_dk(&d) ^ enc_mods(kb.get_modifiers()).rotate_left(40));
                }
                acc
            });
            match r {
                Some(acc) => {
                    for (i, v) in acc.into_iter().enumerate() {
                        out.item(&|| format!("{} op#{}", $name, i), v);
                    }
                }
                None => out.item(&|| format!("{} panicked", $name), 7),
            }
        }};
    }
    run!("kbd-set1", ScancodeSet1::new());
    run!("kbd-set2", ScancodeSet2::new());
}

fn main() {
    std::panic::set_hook(Box::new(|_| {}));
    let args: Vec<String> = std::env::args().collect();
    let get = |n: &str| args.iter().position(|a| a == n).and_then(|i| args.get(i + 1)).cloned();
    let seed: u64 = get("--seed").and_then(|s| s.parse().ok()).unwrap_or(1);
    let dump = get("--dump");
    let sections: Vec<String> = match (&dump, get("--sections")) {
        (Some(d), _) => vec![d.clone()],
        (None, Some(s)) => s.split(',').map(|x| x.to_string()).collect(),
        (None, None) => ["SET1", "SET2", "FRAME", "EVENTS", "LAYOUT", "KBD"].iter().map(|s| s.to_string()).collect(),
    };
    let uni = universe();
    for s in sections {
        let mut out = Out { dump: dump.is_some(), h: 0xCBF2_9CE4_8422_2325, n: 0 };
        match s.as_str() {
            "SET1" => scan(&mut out, ScancodeSet1::new, seed),
            "SET2" => scan(&mut out, ScancodeSet2::new, seed),
            "FRAME" => frames(&mut out, seed),
            "EVENTS" => events(&mut out, &uni, seed),
            "LAYOUT" => layouts(&mut out, &uni),
            "KBD" => keyboard(&mut out, seed),
            _ => continue,
        }
        if dump.is_none() {
            println!("SECTION {} digest={:016x} observations={} keys={}", s, out.h, out.n, uni.len());
        }
    }
}
