#!/usr/bin/env python3
"""Mutation self-test of the monitors (not part of any registered check command).

For every mutant in mutants.py: copy /repo's working tree to a fresh mktemp directory, apply the
edits, require that the repository's own tests still pass (hooks off), run the named property's
quick check against the copy (VERIF_REPO=<copy>), require exit 1 + a VIOLATION line, and delete
the copy with its build output.  Writes selftest/RESULTS.md.

  python3 selftest/run.py [-k substring] [-j N] [--tier quick|thorough] [--all-props]
"""
import concurrent.futures, os, re, shutil, subprocess, sys, tempfile, time
HERE = os.path.dirname(os.path.abspath(__file__))
VERIF = os.path.dirname(HERE)
sys.path.insert(0, HERE)
from mutants import MUTANTS, NEUTRAL


def run_neutral(m, tier):
    """a behaviour-preserving change: every check must exit 0"""
    nid, name, edits = m
    t0 = time.time()
    d = tempfile.mkdtemp(prefix="pckb-neu-")
    try:
        subprocess.check_call(["rsync", "-a", "--exclude", "target", "--exclude", ".git", "/repo/", d + "/"])
        for f, old, new in edits:
            p = os.path.join(d, f)
            s = open(p, encoding="utf-8").read()
            if s.count(old) < 1:
                return (nid, name, "STALE", "edit does not apply: %r not found in %s" % (old[:50], f), time.time() - t0, "")
            open(p, "w", encoding="utf-8").write(s.replace(old, new, 1))
        env = dict(os.environ, CARGO_NET_OFFLINE="true", CARGO_TARGET_DIR=os.path.join(d, ".t-target"))
        t = subprocess.run(["cargo", "test", "--offline"], cwd=d, env=env, stdout=subprocess.PIPE, stderr=subprocess.STDOUT, text=True)
        mm = re.search(r"test result: (\w+)\. (\d+) passed; (\d+) failed", t.stdout)
        if t.returncode != 0 or not mm or mm.group(1) != "ok" or int(mm.group(2)) != 32:
            return (nid, name, "INVALID", " | ".join(t.stdout.strip().splitlines()[-6:])[:300], time.time() - t0, "")
        env2 = dict(os.environ, VERIF_REPO=d, CARGO_NET_OFFLINE="true")
        env2.pop("CARGO_TARGET_DIR", None)
        alarms = []
        for i in range(1, 21):
            pr = "C%02d" % i
            c = subprocess.run([os.path.join(VERIF, "check"), pr, "--tier", tier], cwd=VERIF, env=env2, stdout=subprocess.PIPE, stderr=subprocess.STDOUT, text=True)
            if c.returncode != 0:
                lines = [l.strip() for l in c.stdout.splitlines() if l.startswith("  ") or l.startswith("INCONCLUSIVE")]
                alarms.append("%s(rc%d): %s" % (pr, c.returncode, (lines[0] if lines else c.stdout.strip().splitlines()[-1] if c.stdout.strip() else "")[:200]))
        return (nid, name, "SILENT" if not alarms else "ALARM", " || ".join(alarms), time.time() - t0, "")
    finally:
        shutil.rmtree(d, ignore_errors=True)


def run_one(m, tier, all_props):
    prop, name, edits = m
    t0 = time.time()
    d = tempfile.mkdtemp(prefix="pckb-mut-")
    try:
        subprocess.check_call(["rsync", "-a", "--exclude", "target", "--exclude", ".git", "/repo/", d + "/"])
        for f, old, new in edits:
            p = os.path.join(d, f)
            s = open(p, encoding="utf-8").read()
            if s.count(old) < 1:
                return (prop, name, "STALE", "edit does not apply: %r not found in %s" % (old[:50], f), time.time() - t0, "")
            s = s.replace(old, new, 1)
            open(p, "w", encoding="utf-8").write(s)
        env = dict(os.environ, CARGO_NET_OFFLINE="true", CARGO_TARGET_DIR=os.path.join(d, ".t-target"))
        t = subprocess.run(["cargo", "test", "--offline"], cwd=d, env=env, stdout=subprocess.PIPE, stderr=subprocess.STDOUT, text=True)
        mm = re.search(r"test result: (\w+)\. (\d+) passed; (\d+) failed", t.stdout)
        if t.returncode != 0 or not mm or mm.group(1) != "ok" or int(mm.group(2)) != 32:
            tail = " | ".join(t.stdout.strip().splitlines()[-6:])
            return (prop, name, "INVALID", "mutant does not compile or breaks the test suite: " + tail[:300], time.time() - t0, "")
        env2 = dict(os.environ, VERIF_REPO=d, CARGO_NET_OFFLINE="true")
        env2.pop("CARGO_TARGET_DIR", None)
        props = [prop]
        if all_props:
            props = ["C%02d" % i for i in range(1, 21)]
        caught_by = []
        detail = ""
        verdict = None
        for pr in props:
            c = subprocess.run([os.path.join(VERIF, "check"), pr, "--tier", tier], cwd=VERIF, env=env2, stdout=subprocess.PIPE, stderr=subprocess.STDOUT, text=True)
            has = ("VIOLATION property=%s " % pr) in c.stdout
            if c.returncode == 1 and has:
                caught_by.append(pr)
                if pr == prop:
                    lines = [l for l in c.stdout.splitlines() if l.startswith("  ")]
                    detail = (lines[0].strip() if lines else "")[:220]
            elif pr == prop:
                verdict = "MISSED" if c.returncode == 0 else "RC%d" % c.returncode
                detail = " | ".join(c.stdout.strip().splitlines()[-3:])[:300]
        if prop in caught_by:
            verdict = "KILLED"
        return (prop, name, verdict, detail, time.time() - t0, ",".join(caught_by))
    finally:
        shutil.rmtree(d, ignore_errors=True)


def main():
    args = sys.argv[1:]
    k = args[args.index("-k") + 1] if "-k" in args else ""
    j = int(args[args.index("-j") + 1]) if "-j" in args else 6
    tier = args[args.index("--tier") + 1] if "--tier" in args else "quick"
    all_props = "--all-props" in args
    if "--neutral" in args:
        todo = [m for m in NEUTRAL if k in m[0] + ":" + m[1]]
        print("running %d neutral changes (all 20 quick checks each), %d at a time" % (len(todo), j), flush=True)
        res = []
        with concurrent.futures.ThreadPoolExecutor(max_workers=j) as ex:
            for r in ex.map(lambda m: run_neutral(m, tier), todo):
                print("%-4s %-40s %-8s %5.0fs  %s" % (r[0], r[1], r[2], r[4], r[3][:400]), flush=True)
                res.append(r)
        silent = sum(1 for r in res if r[2] == "SILENT")
        print("silent on %d / %d neutral changes" % (silent, len(res)))
        if not k:
            with open(os.path.join(HERE, "RESULTS_NEUTRAL.md"), "w") as f:
                f.write("# Neutral (behaviour-preserving) changes: every quick check must stay silent\n\nsilent on %d of %d\n\n| id | change | verdict | alarms |\n|---|---|---|---|\n" % (silent, len(res)))
                for r in res:
                    f.write("| %s | %s | %s | %s |\n" % (r[0], r[1], r[2], r[3].replace("|", "\\|")))
        sys.exit(0 if silent == len(res) else 1)
    todo = [m for m in MUTANTS if k in m[0] + ":" + m[1]]
    print("running %d mutants, %d at a time" % (len(todo), j), flush=True)
    res = []
    with concurrent.futures.ThreadPoolExecutor(max_workers=j) as ex:
        for r in ex.map(lambda m: run_one(m, tier, all_props), todo):
            print("%-4s %-40s %-8s %5.0fs  %s %s" % (r[0], r[1], r[2], r[4], ("[" + r[5] + "] ") if all_props else "", r[3][:150]), flush=True)
            res.append(r)
    killed = sum(1 for r in res if r[2] == "KILLED")
    print("killed %d / %d" % (killed, len(res)))
    if not k:
        with open(os.path.join(HERE, "RESULTS.md"), "w") as f:
            f.write("# Mutation self-test results (%s tier)\n\n" % tier)
            f.write("Generated by `python3 selftest/run.py`; every mutant compiles and keeps the repository's 32 tests green.\n\n")
            f.write("killed %d of %d\n\n| property | mutant | verdict | %sfirst violation reported |\n|---|---|---|%s---|\n" % (killed, len(res), "caught by | " if all_props else "", "---|" if all_props else ""))
            for r in res:
                f.write("| %s | %s | %s | %s%s |\n" % (r[0], r[1], r[2], (r[5] + " | ") if all_props else "", r[3].replace("|", "\\|")))
    sys.exit(0 if killed == len(res) else 1)


if __name__ == "__main__":
    main()
