# Mutation self-test: realistic breakages of pc-keyboard, each a list of (file, old, new) edits
# applied to a scratch copy of /repo.  Every mutant must (1) still compile, (2) keep the
# repository's own test suite green, and (3) make the named property's quick check exit 1 with
# a VIOLATION line.  Run with:  python3 selftest/run.py [-k substring] [-j N]
#
# (prop, name, [(file, old, new), ...])

S1 = "src/scancodes/set1.rs"
S2 = "src/scancodes/set2.rs"
LIB = "src/lib.rs"
L = "src/layouts/"

MUTANTS = [
    # ------------------------------------------------------------------ C01
    ("C01", "swap-1C-1B", [(S2, "0x1B => Ok(KeyCode::S),\n            0x1C => Ok(KeyCode::A),", "0x1B => Ok(KeyCode::A),\n            0x1C => Ok(KeyCode::S),")]),
    ("C01", "e0-6b-arrowright", [(S2, "0x6B => Ok(KeyCode::ArrowLeft),", "0x6B => Ok(KeyCode::ArrowRight),"), (S2, "0x74 => Ok(KeyCode::ArrowRight),", "0x74 => Ok(KeyCode::ArrowLeft),")]),
    ("C01", "f7-moved-to-02", [(S2, "0x83 => Ok(KeyCode::F7),", "0x02 => Ok(KeyCode::F7),")]),
    ("C01", "e1-77-numlock", [(S2, "0x14 => Ok(KeyCode::RControl2),\n            _ => Err(Error::UnknownKeyCode),", "0x14 => Ok(KeyCode::RControl2),\n            0x77 => Ok(KeyCode::NumpadLock),\n            _ => Err(Error::UnknownKeyCode),")]),
    ("C01", "release-reports-down", [(S2, "Ok(Some(KeyEvent::new(Self::map_scancode(code)?, KeyState::Up)))", "Ok(Some(KeyEvent::new(Self::map_scancode(code)?, if code == 0x7E { KeyState::Down } else { KeyState::Up })))")]),
    ("C01", "default-starts-in-extended", [(S2, "impl Default for ScancodeSet2 {\n    fn default() -> Self {\n        ScancodeSet2::new()\n    }\n}", "impl Default for ScancodeSet2 {\n    fn default() -> Self {\n        ScancodeSet2 {\n            state: DecodeState::Extended,\n        }\n    }\n}")]),
    ("C01", "time-bomb-after-5000-bytes", [
        (S2, "pub struct ScancodeSet2 {\n    state: DecodeState,\n}", "pub struct ScancodeSet2 {\n    state: DecodeState,\n    seen: u32,\n}"),
        (S2, "        ScancodeSet2 {\n            state: DecodeState::Start,\n        }", "        ScancodeSet2 {\n            state: DecodeState::Start,\n            seen: 0,\n        }"),
        (S2, "    fn advance_state(&mut self, code: u8) -> Result<Option<KeyEvent>, Error> {\n        match self.state {\n            DecodeState::Start => match code {", "    fn advance_state(&mut self, code: u8) -> Result<Option<KeyEvent>, Error> {\n        self.seen = self.seen.saturating_add(1);\n        let code = if self.seen > 5000 && code == 0x1C { 0x1B } else { code };\n        match self.state {\n            DecodeState::Start => match code {"),
    ]),
    # ------------------------------------------------------------------ C02
    ("C02", "swap-3B-3C", [(S1, "0x3B => Ok(KeyCode::F1),\n            0x3C => Ok(KeyCode::F2),", "0x3B => Ok(KeyCode::F2),\n            0x3C => Ok(KeyCode::F1),")]),
    ("C02", "e0-1d-lcontrol", [(S1, "0x1D => Ok(KeyCode::RControl),", "0x1D => Ok(KeyCode::LControl),")]),
    ("C02", "swap-e0-47-4f", [(S1, "0x47 => Ok(KeyCode::Home),", "0x47 => Ok(KeyCode::End),"), (S1, "0x4F => Ok(KeyCode::End),", "0x4F => Ok(KeyCode::Home),")]),
    ("C02", "e1-also-under-e0", [(S1, "0x1C => Ok(KeyCode::NumpadEnter),", "0x1C => Ok(KeyCode::NumpadEnter),\n            0x45 => Ok(KeyCode::NumpadLock),")]),
    ("C02", "break-off-by-one-high", [(S1, "                    0x80..=0xFF => {\n                        // Break codes\n                        Ok(Some(KeyEvent::new(\n                            Self::map_scancode(code - 0x80)?,", "                    0x80..=0xFF => {\n                        // Break codes\n                        Ok(Some(KeyEvent::new(\n                            Self::map_scancode(if code >= 0xD8 { code - 0x81 } else { code - 0x80 })?,")]),
    # ------------------------------------------------------------------ C03
    ("C03", "uk-shift3-hash", [(L + "uk105.rs", "DecodedKey::Unicode('£')", "DecodedKey::Unicode('#')")]),
    ("C03", "no-oslash-to-odiaeresis", [(L + "no105.rs", "DecodedKey::Unicode('ø')", "DecodedKey::Unicode('ö')")]),
    ("C03", "de-altgr-q-euro", [(L + "de105.rs", "DecodedKey::Unicode('@')", "DecodedKey::Unicode('€')")]),
    ("C03", "dvp-key5-paren", [(L + "dvorak_programmer104.rs", "DecodedKey::Unicode('(')", "DecodedKey::Unicode(')')")]),
    ("C03", "jis-oem13-backslash", [(L + "jis109.rs", "DecodedKey::Unicode('¥')", "DecodedKey::Unicode('\\\\')")]),
    ("C03", "azerty-only-lshift", [(L + "azerty.rs", "            KeyCode::Key1 => {\n                if modifiers.is_shifted() {", "            KeyCode::Key1 => {\n                if modifiers.lshift {")]),
    # ------------------------------------------------------------------ C04
    ("C04", "lalt-up-clears-ralt", [(LIB, "                self.modifiers.lalt = false;\n                None", "                self.modifiers.lalt = false;\n                self.modifiers.ralt = false;\n                None")]),
    ("C04", "altgr-down-sets-lalt", [(LIB, "                self.modifiers.ralt = true;", "                self.modifiers.ralt = true;\n                self.modifiers.lalt = true;")]),
    ("C04", "numlock-toggles-under-hidden-ctrl", [(LIB, "                if self.modifiers.rctrl2 {\n                    // It's a Pause key because we got the 'hidden' rctrl2\n                    // sequence first.\n                    Some(DecodedKey::RawKey(KeyCode::PauseBreak))", "                if self.modifiers.rctrl2 {\n                    // It's a Pause key because we got the 'hidden' rctrl2\n                    // sequence first.\n                    self.modifiers.numlock = !self.modifiers.numlock;\n                    Some(DecodedKey::RawKey(KeyCode::PauseBreak))")]),
    ("C04", "capslock-toggles-on-up-too", [(LIB, "            KeyEvent {\n                code: KeyCode::NumpadLock,\n                state: KeyState::Down,\n            } => {", "            KeyEvent {\n                code: KeyCode::CapsLock,\n                state: KeyState::Up,\n            } => {\n                if self.modifiers.lshift && self.modifiers.rshift {\n                    self.modifiers.capslock = !self.modifiers.capslock;\n                }\n                None\n            }\n            KeyEvent {\n                code: KeyCode::NumpadLock,\n                state: KeyState::Down,\n            } => {")]),
    ("C04", "rshift-up-clears-both-when-caps", [(LIB, "                self.modifiers.rshift = false;\n                None", "                self.modifiers.rshift = false;\n                if self.modifiers.capslock && self.modifiers.lctrl {\n                    self.modifiers.lshift = false;\n                }\n                None")]),
    ("C04", "time-bomb-lshift-release-ignored-after-3000-events", [
        (LIB, "    handle_ctrl: HandleControl,\n    modifiers: Modifiers,\n    layout: L,\n}", "    handle_ctrl: HandleControl,\n    modifiers: Modifiers,\n    layout: L,\n    seen: u32,\n}"),
        (LIB, "                rctrl2: false,\n            },\n            layout,\n        }", "                rctrl2: false,\n            },\n            layout,\n            seen: 0,\n        }"),
        (LIB, "    pub fn process_keyevent(&mut self, ev: KeyEvent) -> Option<DecodedKey> {\n        match ev {", "    pub fn process_keyevent(&mut self, ev: KeyEvent) -> Option<DecodedKey> {\n        self.seen = self.seen.saturating_add(1);\n        match ev {"),
        (LIB, "                self.modifiers.lshift = false;\n                None", "                if self.seen < 3000 {\n                    self.modifiers.lshift = false;\n                }\n                None"),
    ]),
    ("C04", "change-layout-resets-capslock", [(LIB, "    pub fn change_layout(&mut self, new_layout: L) {\n        self.layout = new_layout;", "    pub fn change_layout(&mut self, new_layout: L) {\n        self.layout = new_layout;\n        self.modifiers.capslock = false;")]),
    # ------------------------------------------------------------------ C05
    ("C05", "drop-stop-check-when-parity-set", [(LIB, "        if !stop_bit {\n            return Err(Error::BadStopBit);", "        if !stop_bit && !parity_bit {\n            return Err(Error::BadStopBit);")]),
    ("C05", "swap-stop-parity-priority", [(LIB, "        if !stop_bit {\n            return Err(Error::BadStopBit);\n        }\n\n        // We have odd parity, so if there are an even number of 1 bits, we need\n        // the parity bit set to make it odd.\n        let need_parity = Self::has_even_number_bits(data);\n\n        if need_parity != parity_bit {\n            return Err(Error::ParityError);\n        }", "        // We have odd parity, so if there are an even number of 1 bits, we need\n        // the parity bit set to make it odd.\n        let need_parity = Self::has_even_number_bits(data);\n\n        if need_parity != parity_bit {\n            return Err(Error::ParityError);\n        }\n\n        if !stop_bit {\n            return Err(Error::BadStopBit);\n        }")]),
    ("C05", "bad-stop-reported-as-start", [(LIB, "            return Err(Error::BadStopBit);", "            return Err(Error::BadStartBit);")]),
    ("C05", "parity-ignored-for-ff", [(LIB, "        if need_parity != parity_bit {", "        if need_parity != parity_bit && data != 0xFF {")]),
    # ------------------------------------------------------------------ C06
    ("C06", "reset-after-check", [(LIB, "            let word = self.register;\n            self.register = 0;\n            self.num_bits = 0;\n            let byte = Self::check_word(word)?;\n            Ok(Some(byte))", "            let word = self.register;\n            let byte = Self::check_word(word)?;\n            self.register = 0;\n            self.num_bits = 0;\n            Ok(Some(byte))")]),
    ("C06", "clear-only-num-bits", [(LIB, "    pub fn clear(&mut self) {\n        self.register = 0;\n        self.num_bits = 0;", "    pub fn clear(&mut self) {\n        self.num_bits = 0;")]),
    ("C06", "register-kept-on-error", [(LIB, "            let word = self.register;\n            self.register = 0;\n            self.num_bits = 0;\n            let byte = Self::check_word(word)?;\n            Ok(Some(byte))", "            let word = self.register;\n            self.num_bits = 0;\n            let r = Self::check_word(word);\n            if r.is_ok() {\n                self.register = 0;\n            }\n            let byte = r?;\n            Ok(Some(byte))")]),
    ("C06", "twelve-bits-after-error", [(LIB, "            let byte = Self::check_word(word)?;\n            Ok(Some(byte))", "            let byte = match Self::check_word(word) {\n                Ok(b) => b,\n                Err(e) => {\n                    if word == 0x7FF {\n                        self.num_bits = 1;\n                        self.register = 1;\n                    }\n                    return Err(e);\n                }\n            };\n            Ok(Some(byte))")]),
    ("C06", "default-has-one-bit", [(LIB, "impl Default for Ps2Decoder {\n    fn default() -> Self {\n        Ps2Decoder::new()\n    }\n}", "impl Default for Ps2Decoder {\n    fn default() -> Self {\n        Ps2Decoder {\n            register: 0,\n            num_bits: 1,\n        }\n    }\n}")]),
    # ------------------------------------------------------------------ C07
    ("C07", "set2-extended-stuck-after-unknown", [(S2, "                _ => {\n                    self.state = DecodeState::Start;\n\n                    let keycode = Self::map_extended_scancode(code)?;\n                    Ok(Some(KeyEvent::new(keycode, KeyState::Down)))", "                _ => {\n                    let keycode = Self::map_extended_scancode(code)?;\n                    self.state = DecodeState::Start;\n                    Ok(Some(KeyEvent::new(keycode, KeyState::Down)))")]),
    ("C07", "set1-extended-stuck-after-unknown", [(S1, "            DecodeState::Extended => {\n                self.state = DecodeState::Start;\n                match code {\n                    0x80..=0xFF => {\n                        // Extended break codes\n                        Ok(Some(KeyEvent::new(\n                            Self::map_extended_scancode(code - 0x80)?,\n                            KeyState::Up,\n                        )))\n                    }", "            DecodeState::Extended => {\n                match code {\n                    0x80..=0xFF => {\n                        // Extended break codes\n                        let k = Self::map_extended_scancode(code - 0x80)?;\n                        self.state = DecodeState::Start;\n                        Ok(Some(KeyEvent::new(k, KeyState::Up)))\n                    }"), (S1, "                    _ => {\n                        // Extended make codes\n                        Ok(Some(KeyEvent::new(", "                    _ => {\n                        // Extended make codes\n                        self.state = DecodeState::Start;\n                        Ok(Some(KeyEvent::new(")]),
    ("C01", "set2-e0-in-release-keeps-flag", [(S2, "            DecodeState::Release => {\n                self.state = DecodeState::Start;", "            DecodeState::Release => {\n                if code == EXTENDED_KEY_CODE {\n                    self.state = DecodeState::ExtendedRelease;\n                    return Ok(None);\n                }\n                self.state = DecodeState::Start;")]),
    ("C07", "set2-release-stuck-after-unknown", [(S2, "            DecodeState::Release => {\n                self.state = DecodeState::Start;\n                Ok(Some(KeyEvent::new(Self::map_scancode(code)?, KeyState::Up)))", "            DecodeState::Release => {\n                let k = Self::map_scancode(code)?;\n                self.state = DecodeState::Start;\n                Ok(Some(KeyEvent::new(k, KeyState::Up)))")]),
    ("C07", "set2-f0-f0-stays", [(S2, "            DecodeState::ExtendedRelease => {\n                self.state = DecodeState::Start;", "            DecodeState::ExtendedRelease => {\n                if code == KEY_RELEASE_CODE {\n                    return Ok(None);\n                }\n                self.state = DecodeState::Start;")]),
    # ------------------------------------------------------------------ C08
    ("C08", "set1-f0-enters-release", [(S1, "                    EXTENDED2_KEY_CODE => {\n                        self.state = DecodeState::Extended2;\n                        Ok(None)\n                    }\n                    0x80..=0xFF => {", "                    EXTENDED2_KEY_CODE => {\n                        self.state = DecodeState::Extended2;\n                        Ok(None)\n                    }\n                    0xF0 => {\n                        self.state = DecodeState::Release;\n                        Ok(None)\n                    }\n                    0x80..=0xFF => {")]),
    ("C08", "num-bits-not-reset-on-error", [(LIB, "            let word = self.register;\n            self.register = 0;\n            self.num_bits = 0;\n            let byte = Self::check_word(word)?;\n            Ok(Some(byte))", "            let word = self.register;\n            self.register = 0;\n            let byte = Self::check_word(word)?;\n            self.num_bits = 0;\n            Ok(Some(byte))")]),
    ("C08", "set1-sub-without-guard", [(S1, "                    0x80..=0xFF => {\n                        // Extended 2 break codes", "                    0x7E..=0xFF => {\n                        // Extended 2 break codes")]),
    ("C08", "surrogate-unwrap-in-layout", [(L + "fi_se105.rs", "        let map_to_unicode = handle_ctrl == HandleControl::MapLettersToUnicode;", "        let map_to_unicode = handle_ctrl == HandleControl::MapLettersToUnicode;\n        if keycode == KeyCode::Oem9 && modifiers.rctrl2 && modifiers.capslock {\n            return DecodedKey::Unicode(char::from_u32(0xD800 + keycode as u32).unwrap());\n        }")]),
    ("C08", "word-shift-by-offset-overflow", [(LIB, "        let data = ((word >> 1) & 0xFF) as u8;", "        let data = ((word >> 1) & 0xFF) as u8;\n        let _hi = (word >> 11) as u8 * 9;")]),
    ("C08", "oob-get-unchecked-visible-to-miri-only", [(S2, "    fn map_extended2_scancode(code: u8) -> Result<KeyCode, Error> {\n        match code {\n            0x14 => Ok(KeyCode::RControl2),\n            _ => Err(Error::UnknownKeyCode),\n        }", "    fn map_extended2_scancode(code: u8) -> Result<KeyCode, Error> {\n        static KNOWN: [u8; 2] = [0x14, 0x14];\n        // \"branch-free\" membership test: codes 0x00..0x7F index entry 0 or 1 ... and 0x80.. run off the end\n        let probe = unsafe { *KNOWN.get_unchecked((code >> 6) as usize) };\n        if code == 0x14 && probe == 0x14 {\n            Ok(KeyCode::RControl2)\n        } else {\n            Err(Error::UnknownKeyCode)\n        }")]),
    ("C08", "oob-raw-pointer-read-visible-to-miri-only", [(S2, "    fn map_extended2_scancode(code: u8) -> Result<KeyCode, Error> {\n        match code {\n            0x14 => Ok(KeyCode::RControl2),\n            _ => Err(Error::UnknownKeyCode),\n        }", "    fn map_extended2_scancode(code: u8) -> Result<KeyCode, Error> {\n        static KNOWN: [u8; 2] = [0x14, 0x14];\n        // table probe without a bounds check: codes 0x80.. read past the end of the table\n        let probe = unsafe { core::ptr::read_volatile(KNOWN.as_ptr().wrapping_add((code >> 6) as usize)) };\n        if code == 0x14 && probe == 0x14 {\n            Ok(KeyCode::RControl2)\n        } else {\n            Err(Error::UnknownKeyCode)\n        }")]),
    # ------------------------------------------------------------------ C09
    ("C09", "us-k-wrong-constant", [(L + "us104.rs", "DecodedKey::Unicode('\\u{000B}')", "DecodedKey::Unicode('\\u{000C}')")]),
    ("C09", "dvorak-by-position", [(L + "dvorak104.rs", "DecodedKey::Unicode('\\u{0010}')", "DecodedKey::Unicode('\\u{0012}')")]),
    ("C09", "map-mode-alters-digit", [(L + "us104.rs", "            KeyCode::Key2 => {\n                if modifiers.is_shifted() {", "            KeyCode::Key2 => {\n                if map_to_unicode && modifiers.is_ctrl() {\n                    DecodedKey::Unicode('\\u{0000}')\n                } else if modifiers.is_shifted() {")]),
    ("C09", "ignore-mode-still-maps", [(L + "azerty.rs", "        let map_to_unicode = handle_ctrl == HandleControl::MapLettersToUnicode;", "        let map_to_unicode = handle_ctrl == HandleControl::MapLettersToUnicode || keycode == KeyCode::W;")]),
    # ------------------------------------------------------------------ C10
    ("C10", "letter-on-is-shifted", [(L + "no105.rs", "                } else if modifiers.is_caps() {\n                    DecodedKey::Unicode('E')", "                } else if modifiers.is_shifted() {\n                    DecodedKey::Unicode('E')")]),
    ("C10", "symbol-on-is-caps", [(L + "uk105.rs", "            KeyCode::Key2 => {\n                if modifiers.is_shifted() {", "            KeyCode::Key2 => {\n                if modifiers.is_caps() {")]),
    ("C10", "numpad-on-is-caps", [(L + "us104.rs", "            KeyCode::NumpadAdd => DecodedKey::Unicode('+'),", "            KeyCode::NumpadAdd => {\n                if modifiers.capslock && modifiers.is_shifted() {\n                    DecodedKey::Unicode('=')\n                } else {\n                    DecodedKey::Unicode('+')\n                }\n            }")]),
    # ------------------------------------------------------------------ C11
    ("C11", "altgr-any-alt", [(LIB, "        self.ralt | (self.lalt & self.is_ctrl())", "        self.ralt | self.lalt")]),
    ("C11", "key-reads-lshift", [(L + "colemak.rs", "            KeyCode::Key5 => {\n                if modifiers.is_shifted() {", "            KeyCode::Key5 => {\n                if modifiers.lshift {")]),
    ("C11", "is-ctrl-includes-rctrl2", [(LIB, "        self.lctrl | self.rctrl\n", "        self.lctrl | self.rctrl | self.rctrl2\n")]),
    ("C11", "non-numpad-reads-numlock", [(L + "jis109.rs", "            KeyCode::Oem7 => {\n                if modifiers.is_shifted() {", "            KeyCode::Oem7 => {\n                if modifiers.is_shifted() && modifiers.numlock {")]),
    # ------------------------------------------------------------------ C12
    ("C12", "no-altgr-8-removed", [(L + "no105.rs", "                } else if modifiers.is_altgr() {\n                    DecodedKey::Unicode('[')", "                } else if modifiers.is_altgr() {\n                    DecodedKey::Unicode('8')")]),
    ("C12", "fi-altgr-less-removed", [(L + "fi_se105.rs", "DecodedKey::Unicode('|')", "DecodedKey::Unicode('<')")]),
    ("C12", "us-tilde-lost", [(L + "us104.rs", "DecodedKey::Unicode('~')", "DecodedKey::Unicode('¬')")]),
    # ------------------------------------------------------------------ C13
    ("C13", "key-moved-in-set1-only", [(S1, "0x54 => Ok(KeyCode::SysRq),", "0x55 => Ok(KeyCode::SysRq),")]),
    ("C13", "set1-rcontrol-under-e1", [(S1, "            0x1D => Ok(KeyCode::RControl),\n", ""), (S1, "0x1D => Ok(KeyCode::RControl2),", "0x1D => Ok(KeyCode::RControl2),\n            0x1E => Ok(KeyCode::RControl),")]),
    ("C13", "set2-media-swapped", [(S2, "0x21 => Ok(KeyCode::VolumeDown),", "0x21 => Ok(KeyCode::VolumeUp),"), (S2, "0x32 => Ok(KeyCode::VolumeUp),", "0x32 => Ok(KeyCode::VolumeDown),")]),
    # ------------------------------------------------------------------ C14
    ("C14", "default-modifiers-to-layout", [(LIB, "                    .map_keycode(c, &self.modifiers, self.handle_ctrl),", "                    .map_keycode(c, &if c == KeyCode::Key9 { Modifiers::default() } else { self.modifiers.clone() }, self.handle_ctrl),")]),
    ("C14", "emit-on-up", [(LIB, "            _ => None,\n        }\n    }\n\n    /// Change the keyboard layout.", "            KeyEvent {\n                code: KeyCode::Apps,\n                state: KeyState::Up,\n            } => Some(DecodedKey::RawKey(KeyCode::Apps)),\n            _ => None,\n        }\n    }\n\n    /// Change the keyboard layout.")]),
    ("C14", "pause-inferred-on-rctrl", [(LIB, "                if self.modifiers.rctrl2 {\n                    // It's a Pause key", "                if self.modifiers.rctrl2 || (self.modifiers.rctrl && self.modifiers.lalt) {\n                    // It's a Pause key")]),
    ("C14", "shift-press-swallowed", [(LIB, "                self.modifiers.rshift = true;\n                Some(DecodedKey::RawKey(KeyCode::RShift))", "                self.modifiers.rshift = true;\n                if self.modifiers.lshift {\n                    None\n                } else {\n                    Some(DecodedKey::RawKey(KeyCode::RShift))\n                }")]),
    # ------------------------------------------------------------------ C15
    ("C15", "colemak-numpad-aliases-swapped", [(L + "colemak.rs", "DecodedKey::RawKey(KeyCode::End)", "DecodedKey::RawKey(KeyCode::PageDown)")]),
    ("C15", "no-decimal-dot", [(L + "no105.rs", "                    DecodedKey::Unicode(',')\n                } else {\n                    DecodedKey::Unicode(127.into())", "                    DecodedKey::Unicode('.')\n                } else {\n                    DecodedKey::Unicode(127.into())")]),
    ("C15", "azerty-tab-vt", [(L + "azerty.rs", "KeyCode::Tab => DecodedKey::Unicode(0x09.into()),", "KeyCode::Tab => DecodedKey::Unicode(0x0B.into()),")]),
    ("C15", "colemak-numpad-enter-cr", [(L + "colemak.rs", "KeyCode::NumpadEnter => DecodedKey::Unicode(10.into()),", "KeyCode::NumpadEnter => DecodedKey::Unicode(13.into()),")]),
    # ------------------------------------------------------------------ C16
    ("C16", "stray-f1-arm", [(L + "jis109.rs", "        match keycode {\n", "        match keycode {\n            KeyCode::F1 if modifiers.is_altgr() => DecodedKey::Unicode('1'),\n")]),
    ("C16", "jis-oem9-as-oem10", [(L + "jis109.rs", "        match keycode {\n", "        match keycode {\n            KeyCode::Oem9 => DecodedKey::RawKey(KeyCode::Oem10),\n")]),
    ("C16", "alias-with-numlock-on", [(L + "dvorak_programmer104.rs", "            KeyCode::Numpad9 => {\n                if modifiers.numlock {", "            KeyCode::Numpad9 => {\n                if modifiers.numlock && !modifiers.is_ctrl() {")]),
    # ------------------------------------------------------------------ C17
    ("C17", "cross-arms-by-ref-only", [(L + "mod.rs", "impl super::KeyboardLayout for &AnyLayout {\n    fn map_keycode(\n        &self,\n        keycode: super::KeyCode,\n        modifiers: &super::Modifiers,\n        handle_ctrl: super::HandleControl,\n    ) -> super::DecodedKey {\n        match self {\n            AnyLayout::DVP104Key(inner) => inner.map_keycode(keycode, modifiers, handle_ctrl),\n            AnyLayout::Dvorak104Key(inner) => inner.map_keycode(keycode, modifiers, handle_ctrl),", "impl super::KeyboardLayout for &AnyLayout {\n    fn map_keycode(\n        &self,\n        keycode: super::KeyCode,\n        modifiers: &super::Modifiers,\n        handle_ctrl: super::HandleControl,\n    ) -> super::DecodedKey {\n        match self {\n            AnyLayout::DVP104Key(inner) => inner.map_keycode(keycode, modifiers, handle_ctrl),\n            AnyLayout::Dvorak104Key(_) => DVP104Key.map_keycode(keycode, modifiers, handle_ctrl),")]),
    ("C17", "any-drops-ctrl-mode", [(L + "mod.rs", "            AnyLayout::FiSe105Key(inner) => inner.map_keycode(keycode, modifiers, handle_ctrl),\n        }\n    }\n}\n\nimpl super::KeyboardLayout for &AnyLayout {", "            AnyLayout::FiSe105Key(inner) => inner.map_keycode(keycode, modifiers, super::HandleControl::Ignore),\n        }\n    }\n}\n\nimpl super::KeyboardLayout for &AnyLayout {")]),
    # ------------------------------------------------------------------ C18
    ("C18", "clear-resets-scancode-event", [(LIB, "    pub fn clear(&mut self) {\n        self.ps2_decoder.clear();", "    pub fn clear(&mut self) {\n        self.ps2_decoder.clear();\n        self.event_decoder.modifiers.rctrl2 = false;")]),
    ("C18", "add-word-clears-bit-register", [(LIB, "        let byte = self.ps2_decoder.add_word(word)?;\n        self.add_byte(byte)", "        self.ps2_decoder.clear();\n        let byte = self.ps2_decoder.add_word(word)?;\n        self.add_byte(byte)")]),
    ("C18", "rejected-frame-resets-prefix", [(LIB, "        if let Some(byte) = self.ps2_decoder.add_bit(bit)? {\n            self.scancode_set.advance_state(byte)", "        let r = self.ps2_decoder.add_bit(bit);\n        if r.is_err() {\n            let _ = self.scancode_set.advance_state(0xFF);\n        }\n        if let Some(byte) = r? {\n            self.scancode_set.advance_state(byte)")]),
    ("C18", "add-byte-touches-framing", [(LIB, "    pub fn add_byte(&mut self, byte: u8) -> Result<Option<KeyEvent>, Error> {\n        self.scancode_set.advance_state(byte)", "    pub fn add_byte(&mut self, byte: u8) -> Result<Option<KeyEvent>, Error> {\n        if byte == 0xAA {\n            self.ps2_decoder.clear();\n        }\n        self.scancode_set.advance_state(byte)")]),
    # ------------------------------------------------------------------ C19
    ("C19", "two-codes-one-key", [(S2, "0x0E => Ok(KeyCode::Oem8),", "0x0E => Ok(KeyCode::Oem8),\n            0x0F => Ok(KeyCode::Oem8),"), (S2, "            0x7F => Ok(KeyCode::SysRq),\n", "")]),
    ("C19", "break-undefined", [(S1, "                    0x80..=0xFF => {\n                        // Extended break codes\n                        Ok(Some(KeyEvent::new(\n                            Self::map_extended_scancode(code - 0x80)?,", "                    0x80..=0xFF => {\n                        // Extended break codes\n                        if code == 0xDD {\n                            return Err(Error::UnknownKeyCode);\n                        }\n                        Ok(Some(KeyEvent::new(\n                            Self::map_extended_scancode(code - 0x80)?,")]),
    # ------------------------------------------------------------------ C20
    ("C20", "keyboard-new-not-const", [(LIB, "    pub const fn new(scancode_set: S, layout: L, handle_ctrl: HandleControl) -> Keyboard<L, S> {", "    pub fn new(scancode_set: S, layout: L, handle_ctrl: HandleControl) -> Keyboard<L, S> {")]),
    ("C20", "set2-new-not-const", [(S2, "    pub const fn new() -> ScancodeSet2 {", "    pub fn new() -> ScancodeSet2 {")]),
    ("C20", "is-altgr-not-const", [(LIB, "    pub const fn is_altgr(&self) -> bool {", "    pub fn is_altgr(&self) -> bool {")]),
    ("C20", "ps2-not-sync", [(LIB, "pub struct Ps2Decoder {\n    register: u16,\n    num_bits: u8,\n}", "pub struct Ps2Decoder {\n    register: u16,\n    num_bits: u8,\n    _not_sync: core::marker::PhantomData<core::cell::Cell<u8>>,\n}"), (LIB, "        Ps2Decoder {\n            register: 0,\n            num_bits: 0,\n        }", "        Ps2Decoder {\n            register: 0,\n            num_bits: 0,\n            _not_sync: core::marker::PhantomData,\n        }")]),
    ("C20", "get-modifiers-not-const", [(LIB, "    pub const fn get_modifiers(&self) -> &Modifiers {", "    pub fn get_modifiers(&self) -> &Modifiers {")]),
]

# ---------------------------------------------------------------------------------------------
# Neutral changes: behaviour-preserving edits a maintainer might make.  Every property still holds,
# so EVERY check must stay silent (exit 0) on them:  python3 selftest/run.py --neutral
# ---------------------------------------------------------------------- counters kept in static memory (outside every object)
MUTANTS += [
    ("C04", "static-u16-event-count-drops-the-wrapping-event", [
        (LIB, "    pub fn process_keyevent(&mut self, ev: KeyEvent) -> Option<DecodedKey> {\n        match ev {",
         "    pub fn process_keyevent(&mut self, ev: KeyEvent) -> Option<DecodedKey> {\n        static EVENTS: core::sync::atomic::AtomicU16 = core::sync::atomic::AtomicU16::new(0);\n        if EVENTS.fetch_add(1, core::sync::atomic::Ordering::Relaxed) == u16::MAX {\n            // statistics overflowed: start a new sampling window\n            return None;\n        }\n        match ev {"),
    ]),
    ("C14", "static-u32-event-count-drops-the-wrapping-event", [
        (LIB, "    pub fn process_keyevent(&mut self, ev: KeyEvent) -> Option<DecodedKey> {\n        match ev {",
         "    pub fn process_keyevent(&mut self, ev: KeyEvent) -> Option<DecodedKey> {\n        static EVENTS: core::sync::atomic::AtomicU32 = core::sync::atomic::AtomicU32::new(0);\n        if EVENTS.fetch_add(1, core::sync::atomic::Ordering::Relaxed) == u32::MAX {\n            // statistics overflowed: start a new sampling window\n            return None;\n        }\n        match ev {"),
    ]),
    ("C08", "static-u16-frame-count-checked-add", [
        (LIB, "            let word = self.register;\n            self.register = 0;\n            self.num_bits = 0;",
         "            let word = self.register;\n            self.register = 0;\n            self.num_bits = 0;\n            static FRAMES: core::sync::atomic::AtomicU16 = core::sync::atomic::AtomicU16::new(0);\n            let n = FRAMES.load(core::sync::atomic::Ordering::Relaxed);\n            FRAMES.store(n.checked_add(1).expect(\"frame statistics overflow\"), core::sync::atomic::Ordering::Relaxed);"),
    ]),
    ("C06", "static-u32-bit-count-resyncs-at-wrap", [
        (LIB, "    pub fn add_bit(&mut self, bit: bool) -> Result<Option<u8>, Error> {\n        self.register |= (bit as u16) << self.num_bits;",
         "    pub fn add_bit(&mut self, bit: bool) -> Result<Option<u8>, Error> {\n        static BITS: core::sync::atomic::AtomicU32 = core::sync::atomic::AtomicU32::new(0);\n        if BITS.fetch_add(1, core::sync::atomic::Ordering::Relaxed) == u32::MAX {\n            // the line statistics wrapped: take the opportunity to resynchronise\n            self.register = 0;\n            self.num_bits = 0;\n        }\n        self.register |= (bit as u16) << self.num_bits;"),
    ]),
    ("C17", "static-u16-lookup-count-passes-the-wrapping-lookup-through", [
        (L + "mod.rs", "impl super::KeyboardLayout for AnyLayout {\n    fn map_keycode(\n        &self,\n        keycode: super::KeyCode,\n        modifiers: &super::Modifiers,\n        handle_ctrl: super::HandleControl,\n    ) -> super::DecodedKey {\n        match self {",
         "impl super::KeyboardLayout for AnyLayout {\n    fn map_keycode(\n        &self,\n        keycode: super::KeyCode,\n        modifiers: &super::Modifiers,\n        handle_ctrl: super::HandleControl,\n    ) -> super::DecodedKey {\n        static LOOKUPS: core::sync::atomic::AtomicU16 = core::sync::atomic::AtomicU16::new(0);\n        if LOOKUPS.fetch_add(1, core::sync::atomic::Ordering::Relaxed) == u16::MAX {\n            return super::DecodedKey::RawKey(keycode);\n        }\n        match self {"),
    ]),
]

NEUTRAL = [
    ("N01", "ps2-frames-seen-counter", [
        (LIB, "pub struct Ps2Decoder {\n    register: u16,\n    num_bits: u8,\n}", "pub struct Ps2Decoder {\n    register: u16,\n    num_bits: u8,\n    frames_seen: u32,\n}"),
        (LIB, "        Ps2Decoder {\n            register: 0,\n            num_bits: 0,\n        }", "        Ps2Decoder {\n            register: 0,\n            num_bits: 0,\n            frames_seen: 0,\n        }"),
        (LIB, "            let word = self.register;\n            self.register = 0;\n            self.num_bits = 0;", "            let word = self.register;\n            self.register = 0;\n            self.num_bits = 0;\n            self.frames_seen = self.frames_seen.wrapping_add(1);"),
    ]),
    ("N02", "set2-remembers-last-byte", [
        (S2, "pub struct ScancodeSet2 {\n    state: DecodeState,\n}", "pub struct ScancodeSet2 {\n    state: DecodeState,\n    last: u8,\n}"),
        (S2, "        ScancodeSet2 {\n            state: DecodeState::Start,\n        }", "        ScancodeSet2 {\n            state: DecodeState::Start,\n            last: 0,\n        }"),
        (S2, "    fn advance_state(&mut self, code: u8) -> Result<Option<KeyEvent>, Error> {\n        match self.state {\n            DecodeState::Start => match code {", "    fn advance_state(&mut self, code: u8) -> Result<Option<KeyEvent>, Error> {\n        self.last = code;\n        match self.state {\n            DecodeState::Start => match code {"),
    ]),
    ("N03", "event-decoder-press-counter", [
        (LIB, "    handle_ctrl: HandleControl,\n    modifiers: Modifiers,\n    layout: L,\n}", "    handle_ctrl: HandleControl,\n    modifiers: Modifiers,\n    layout: L,\n    events_seen: u32,\n}"),
        (LIB, "                rctrl2: false,\n            },\n            layout,\n        }", "                rctrl2: false,\n            },\n            layout,\n            events_seen: 0,\n        }"),
        (LIB, "    pub fn process_keyevent(&mut self, ev: KeyEvent) -> Option<DecodedKey> {\n        match ev {", "    pub fn process_keyevent(&mut self, ev: KeyEvent) -> Option<DecodedKey> {\n        self.events_seen = self.events_seen.wrapping_add(1);\n        match ev {"),
    ]),
    ("N04", "parity-by-xor-fold", [
        (LIB, "        (data.count_ones() % 2) == 0", "        let mut x = data;\n        x ^= x >> 4;\n        x ^= x >> 2;\n        x ^= x >> 1;\n        (x & 1) == 0"),
    ]),
    ("N05", "new-key-documented-in-readme", [
        (LIB, "    /// Used as a 'hidden' Right Alt Key (Print Screen = RAlt2 + PrntScr)\n    RAlt2,\n}", "    /// Used as a 'hidden' Right Alt Key (Print Screen = RAlt2 + PrntScr)\n    RAlt2,\n    /// ACPI power button\n    Power,\n}"),
        (S2, "0x7D => Ok(KeyCode::PageUp),\n            _ => Err(Error::UnknownKeyCode),", "0x7D => Ok(KeyCode::PageUp),\n            0x37 => Ok(KeyCode::Power),\n            _ => Err(Error::UnknownKeyCode),"),
        (S1, "0x5D => Ok(KeyCode::Apps),", "0x5D => Ok(KeyCode::Apps),\n            0x5E => Ok(KeyCode::Power),"),
        ("README.md", "| RAlt2          | 0xE02A         | 0xE012         |", "| RAlt2          | 0xE02A         | 0xE012         |\n| Power          | 0xE05E         | 0xE037         |"),
    ]),
    ("N06", "keyboard-byte-counter-and-field-order", [
        (LIB, "    ps2_decoder: Ps2Decoder,\n    scancode_set: S,\n    event_decoder: EventDecoder<L>,\n}", "    event_decoder: EventDecoder<L>,\n    bytes_seen: u64,\n    ps2_decoder: Ps2Decoder,\n    scancode_set: S,\n}"),
        (LIB, "            ps2_decoder: Ps2Decoder::new(),\n            scancode_set,\n            event_decoder: EventDecoder::new(layout, handle_ctrl),", "            ps2_decoder: Ps2Decoder::new(),\n            scancode_set,\n            event_decoder: EventDecoder::new(layout, handle_ctrl),\n            bytes_seen: 0,"),
        (LIB, "    pub fn add_byte(&mut self, byte: u8) -> Result<Option<KeyEvent>, Error> {\n        self.scancode_set.advance_state(byte)", "    pub fn add_byte(&mut self, byte: u8) -> Result<Option<KeyEvent>, Error> {\n        self.bytes_seen = self.bytes_seen.wrapping_add(1);\n        self.scancode_set.advance_state(byte)"),
    ]),
    ("N07", "us104-letter-helper", [
        (L + "us104.rs", "            KeyCode::W => {\n                if map_to_unicode && modifiers.is_ctrl() {\n                    DecodedKey::Unicode('\\u{0017}')\n                } else if modifiers.is_caps() {\n                    DecodedKey::Unicode('W')\n                } else {\n                    DecodedKey::Unicode('w')\n                }\n            }", "            KeyCode::W => {\n                let letter = if modifiers.is_caps() { 'W' } else { 'w' };\n                if map_to_unicode && modifiers.is_ctrl() {\n                    DecodedKey::Unicode(((letter.to_ascii_lowercase() as u8) - b'a' + 1) as char)\n                } else {\n                    DecodedKey::Unicode(letter)\n                }\n            }"),
    ]),
    ("N08", "set1-shared-break-split", [
        (S1, "            DecodeState::Extended2 => {\n                self.state = DecodeState::Start;\n                match code {\n                    0x80..=0xFF => {\n                        // Extended 2 break codes\n                        Ok(Some(KeyEvent::new(\n                            Self::map_extended2_scancode(code - 0x80)?,\n                            KeyState::Up,\n                        )))\n                    }\n                    _ => {\n                        // Extended 2 make codes\n                        Ok(Some(KeyEvent::new(\n                            Self::map_extended2_scancode(code)?,\n                            KeyState::Down,\n                        )))\n                    }\n                }\n            }", "            DecodeState::Extended2 => {\n                self.state = DecodeState::Start;\n                let (c, st) = if code & 0x80 != 0 { (code & 0x7F, KeyState::Up) } else { (code, KeyState::Down) };\n                Ok(Some(KeyEvent::new(Self::map_extended2_scancode(c)?, st)))\n            }"),
    ]),
]

NEUTRAL += [
    ("N09", "new-layout-and-anylayout-variant", [
        (L + "mod.rs", "mod fi_se105;\npub use self::fi_se105::FiSe105Key;", "mod fi_se105;\npub use self::fi_se105::FiSe105Key;\n\n/// A Spanish keyboard (work in progress: currently identical to the US layout).\npub struct Es105Key;\nimpl super::KeyboardLayout for Es105Key {\n    fn map_keycode(&self, keycode: super::KeyCode, modifiers: &super::Modifiers, handle_ctrl: super::HandleControl) -> super::DecodedKey {\n        Us104Key.map_keycode(keycode, modifiers, handle_ctrl)\n    }\n}"),
        (L + "mod.rs", "    FiSe105Key(FiSe105Key),\n}", "    FiSe105Key(FiSe105Key),\n    Es105Key(Es105Key),\n}"),
        (L + "mod.rs", "            AnyLayout::FiSe105Key(inner) => inner.map_keycode(keycode, modifiers, handle_ctrl),\n        }\n    }\n}\n\nimpl super::KeyboardLayout for &AnyLayout {", "            AnyLayout::FiSe105Key(inner) => inner.map_keycode(keycode, modifiers, handle_ctrl),\n            AnyLayout::Es105Key(inner) => inner.map_keycode(keycode, modifiers, handle_ctrl),\n        }\n    }\n}\n\nimpl super::KeyboardLayout for &AnyLayout {"),
        (L + "mod.rs", "            AnyLayout::FiSe105Key(inner) => inner.map_keycode(keycode, modifiers, handle_ctrl),\n        }\n    }\n}\n\n#[cfg(test)]", "            AnyLayout::FiSe105Key(inner) => inner.map_keycode(keycode, modifiers, handle_ctrl),\n            AnyLayout::Es105Key(inner) => inner.map_keycode(keycode, modifiers, handle_ctrl),\n        }\n    }\n}\n\n#[cfg(test)]"),
    ]),
    ("N10", "private-fields-renamed", [
        (LIB, "    handle_ctrl: HandleControl,\n    modifiers: Modifiers,\n    layout: L,\n}", "    ctrl_mode: HandleControl,\n    modifiers: Modifiers,\n    layout: L,\n}"),
        (LIB, "self.handle_ctrl", "self.ctrl_mode"), (LIB, "self.handle_ctrl", "self.ctrl_mode"), (LIB, "self.handle_ctrl", "self.ctrl_mode"),
        (LIB, "        EventDecoder {\n            handle_ctrl,", "        EventDecoder {\n            ctrl_mode: handle_ctrl,"),
        (LIB, "pub struct Ps2Decoder {\n    register: u16,\n    num_bits: u8,\n}", "pub struct Ps2Decoder {\n    shift_reg: u16,\n    count: u8,\n}"),
        (LIB, "        Ps2Decoder {\n            register: 0,\n            num_bits: 0,\n        }", "        Ps2Decoder {\n            shift_reg: 0,\n            count: 0,\n        }"),
        (LIB, "    pub fn clear(&mut self) {\n        self.register = 0;\n        self.num_bits = 0;", "    pub fn clear(&mut self) {\n        self.shift_reg = 0;\n        self.count = 0;"),
        (LIB, "        self.register |= (bit as u16) << self.num_bits;\n        self.num_bits += 1;\n        if self.num_bits == KEYCODE_BITS {\n            let word = self.register;\n            self.register = 0;\n            self.num_bits = 0;", "        self.shift_reg |= (bit as u16) << self.count;\n        self.count += 1;\n        if self.count == KEYCODE_BITS {\n            let word = self.shift_reg;\n            self.shift_reg = 0;\n            self.count = 0;"),
    ]),
]

# neutral changes aimed at the mechanisms added after the red-team rounds (discovery of new API, static-memory watch, novelty search)
NEUTRAL += [
    ("N11", "anylayout-lookup-counter-in-a-static", [
        (L + "mod.rs", "impl super::KeyboardLayout for AnyLayout {\n    fn map_keycode(\n        &self,\n        keycode: super::KeyCode,\n        modifiers: &super::Modifiers,\n        handle_ctrl: super::HandleControl,\n    ) -> super::DecodedKey {\n        match self {",
         "/// Number of look-ups made through [`AnyLayout`] (diagnostics).\npub static ANY_LOOKUPS: core::sync::atomic::AtomicU32 = core::sync::atomic::AtomicU32::new(0);\n\nimpl super::KeyboardLayout for AnyLayout {\n    fn map_keycode(\n        &self,\n        keycode: super::KeyCode,\n        modifiers: &super::Modifiers,\n        handle_ctrl: super::HandleControl,\n    ) -> super::DecodedKey {\n        ANY_LOOKUPS.fetch_add(1, core::sync::atomic::Ordering::Relaxed);\n        match self {"),
    ]),
    ("N12", "set2-second-constructor-same-state", [
        (S2, "    pub const fn new() -> ScancodeSet2 {\n        ScancodeSet2 {\n            state: DecodeState::Start,\n        }\n    }",
         "    pub const fn new() -> ScancodeSet2 {\n        ScancodeSet2 {\n            state: DecodeState::Start,\n        }\n    }\n\n    /// Same as [`ScancodeSet2::new`]; kept for source compatibility with 0.7.\n    pub const fn new_idle() -> ScancodeSet2 {\n        ScancodeSet2::new()\n    }"),
    ]),
    ("N13", "keyboard-bool-switch-without-effect", [
        (LIB, "    ps2_decoder: Ps2Decoder,\n    scancode_set: S,\n    event_decoder: EventDecoder<L>,\n}", "    ps2_decoder: Ps2Decoder,\n    scancode_set: S,\n    event_decoder: EventDecoder<L>,\n    verbose: bool,\n}"),
        (LIB, "            ps2_decoder: Ps2Decoder::new(),\n            scancode_set,\n            event_decoder: EventDecoder::new(layout, handle_ctrl),", "            ps2_decoder: Ps2Decoder::new(),\n            scancode_set,\n            event_decoder: EventDecoder::new(layout, handle_ctrl),\n            verbose: false,"),
        (LIB, "    /// Change the Ctrl key mapping.\n    pub fn set_ctrl_handling(&mut self, new_value: HandleControl) {\n        self.event_decoder.set_ctrl_handling(new_value);\n    }", "    /// Change the Ctrl key mapping.\n    pub fn set_ctrl_handling(&mut self, new_value: HandleControl) {\n        self.event_decoder.set_ctrl_handling(new_value);\n    }\n\n    /// Ask for verbose diagnostics (reserved; no effect yet).\n    pub fn set_verbose(&mut self, on: bool) {\n        self.verbose = on;\n    }\n\n    /// Whether verbose diagnostics were asked for.\n    pub const fn get_verbose(&self) -> bool {\n        self.verbose\n    }"),
    ]),
    ("N14", "event-decoder-remembers-last-key-and-press-count", [
        (LIB, "    handle_ctrl: HandleControl,\n    modifiers: Modifiers,\n    layout: L,\n}", "    handle_ctrl: HandleControl,\n    modifiers: Modifiers,\n    layout: L,\n    last_key: Option<KeyCode>,\n    presses: u16,\n}"),
        (LIB, "                rctrl2: false,\n            },\n            layout,\n        }", "                rctrl2: false,\n            },\n            layout,\n            last_key: None,\n            presses: 0,\n        }"),
        (LIB, "    pub fn process_keyevent(&mut self, ev: KeyEvent) -> Option<DecodedKey> {\n        match ev {", "    pub fn process_keyevent(&mut self, ev: KeyEvent) -> Option<DecodedKey> {\n        if ev.state == KeyState::Down {\n            self.last_key = Some(ev.code);\n            self.presses = self.presses.wrapping_add(1);\n        }\n        match ev {"),
    ]),
    ("N15", "generic-layout-adapter-that-is-correct", [
        (L + "mod.rs", "impl super::KeyboardLayout for &AnyLayout {", "/// A layout seen through a reference-counting-free adapter (passes everything through).\npub struct Through<L>(pub L);\n\nimpl<L> super::KeyboardLayout for Through<L>\nwhere\n    L: super::KeyboardLayout,\n{\n    fn map_keycode(\n        &self,\n        keycode: super::KeyCode,\n        modifiers: &super::Modifiers,\n        handle_ctrl: super::HandleControl,\n    ) -> super::DecodedKey {\n        self.0.map_keycode(keycode, modifiers, handle_ctrl)\n    }\n}\n\nimpl super::KeyboardLayout for &AnyLayout {"),
    ]),
]

NEUTRAL += [
    ("N16", "harmless-static-counters-in-every-stage", [
        (S1, "    fn advance_state(&mut self, code: u8) -> Result<Option<KeyEvent>, Error> {\n        match self.state {", "    fn advance_state(&mut self, code: u8) -> Result<Option<KeyEvent>, Error> {\n        static SEEN: core::sync::atomic::AtomicU8 = core::sync::atomic::AtomicU8::new(0);\n        SEEN.fetch_add(1, core::sync::atomic::Ordering::Relaxed);\n        match self.state {"),
        (S2, "    fn advance_state(&mut self, code: u8) -> Result<Option<KeyEvent>, Error> {\n        match self.state {", "    fn advance_state(&mut self, code: u8) -> Result<Option<KeyEvent>, Error> {\n        static SEEN: core::sync::atomic::AtomicU32 = core::sync::atomic::AtomicU32::new(0);\n        SEEN.fetch_add(1, core::sync::atomic::Ordering::Relaxed);\n        match self.state {"),
        (LIB, "    pub fn add_bit(&mut self, bit: bool) -> Result<Option<u8>, Error> {\n        self.register |= (bit as u16) << self.num_bits;", "    pub fn add_bit(&mut self, bit: bool) -> Result<Option<u8>, Error> {\n        static BITS: core::sync::atomic::AtomicU16 = core::sync::atomic::AtomicU16::new(0);\n        static ONES: core::sync::atomic::AtomicU64 = core::sync::atomic::AtomicU64::new(0);\n        BITS.fetch_add(1, core::sync::atomic::Ordering::Relaxed);\n        if bit {\n            ONES.fetch_add(1, core::sync::atomic::Ordering::Relaxed);\n        }\n        self.register |= (bit as u16) << self.num_bits;"),
        (LIB, "    pub fn process_keyevent(&mut self, ev: KeyEvent) -> Option<DecodedKey> {\n        match ev {", "    pub fn process_keyevent(&mut self, ev: KeyEvent) -> Option<DecodedKey> {\n        static PRESSES: core::sync::atomic::AtomicU16 = core::sync::atomic::AtomicU16::new(0);\n        if ev.state == KeyState::Down {\n            PRESSES.fetch_add(1, core::sync::atomic::Ordering::Relaxed);\n        }\n        match ev {"),
    ]),
]

NEUTRAL += [
    ("N17", "key-and-byte-arrays-spelled-out-in-the-source", [
        (LIB, "impl KeyEvent {\n    pub const fn new(code: KeyCode, state: KeyState) -> KeyEvent {", "/// The home row, for documentation examples.\npub const HOME_ROW: [KeyCode; 8] = [KeyCode::A, KeyCode::S, KeyCode::D, KeyCode::F, KeyCode::J, KeyCode::K, KeyCode::L, KeyCode::Oem1];\n/// The bytes a keyboard answers to a reset with.\npub const RESET_REPLY: [u8; 2] = [0xFA, 0xAA];\n/// Pause, as Set 2 sends it.\npub const PAUSE_SET2: u64 = 0xE11477E1F014F077;\n\nimpl KeyEvent {\n    pub const fn new(code: KeyCode, state: KeyState) -> KeyEvent {"),
    ]),
    ("N18", "debug-assertions-without-side-effects", [
        (LIB, "    pub fn add_bit(&mut self, bit: bool) -> Result<Option<u8>, Error> {\n        self.register |= (bit as u16) << self.num_bits;", "    pub fn add_bit(&mut self, bit: bool) -> Result<Option<u8>, Error> {\n        debug_assert!(self.num_bits < KEYCODE_BITS, \"frame register over-full\");\n        self.register |= (bit as u16) << self.num_bits;"),
        (S2, "    fn advance_state(&mut self, code: u8) -> Result<Option<KeyEvent>, Error> {\n        match self.state {", "    fn advance_state(&mut self, code: u8) -> Result<Option<KeyEvent>, Error> {\n        debug_assert!(matches!(self.state, DecodeState::Start | DecodeState::Extended | DecodeState::Release | DecodeState::ExtendedRelease | DecodeState::Extended2 | DecodeState::Extended2Release));\n        match self.state {"),
    ]),
]
