#!/usr/bin/env python3
"""Evaluate a seeded change (patch.diff + demo test) independently of whoever wrote it.

  tools/seeded_eval.py <dir with patch.diff and demo_*.rs> [--props C01,C07] [--tier quick]

Steps, all on scratch copies of /repo under a mktemp directory (removed afterwards):
  1. clean copy + demo test           -> the demo must PASS
  2. patched copy: cargo test (hooks off) must still pass 32 tests; build with --features verif-hooks must succeed
  3. patched copy + demo test         -> the demo must FAIL
  4. every requested property's check against the patched copy (VERIF_REPO=<copy>) -> which of them report a VIOLATION
Prints a JSON summary on the last line.
"""
import glob, json, os, re, shutil, subprocess, sys, tempfile, time
VERIF = os.path.dirname(os.path.dirname(os.path.abspath(__file__)))


def sh(cmd, cwd, env=None, timeout=3600):
    p = subprocess.run(cmd, cwd=cwd, env=env, stdout=subprocess.PIPE, stderr=subprocess.STDOUT, text=True, timeout=timeout)
    return p.returncode, p.stdout


def copy_repo(dst):
    subprocess.check_call(["rsync", "-a", "--exclude", "target", "--exclude", ".git", "--exclude", ".verif-*", "/repo/", dst + "/"])


def main():
    d = os.path.abspath(sys.argv[1])
    args = sys.argv[2:]
    props = ["C%02d" % i for i in range(1, 21)]
    if "--props" in args:
        props = args[args.index("--props") + 1].split(",")
    tier = args[args.index("--tier") + 1] if "--tier" in args else "quick"
    patch = os.path.join(d, "patch.diff")
    demos = glob.glob(os.path.join(d, "demo_*.rs"))
    out = {"dir": d, "tier": tier}
    root = tempfile.mkdtemp(prefix="pckb-seed-")
    try:
        clean, mut = os.path.join(root, "clean"), os.path.join(root, "mut")
        os.makedirs(clean); os.makedirs(mut)
        copy_repo(clean); copy_repo(mut)
        env = dict(os.environ, CARGO_NET_OFFLINE="true")
        rc, o = sh(["patch", "-p1", "-i", patch], mut)
        out["patch_applies"] = rc == 0
        if rc != 0:
            out["error"] = o[-500:]
            print(json.dumps(out)); return
        # 2. existing suite + hooks build on the patched copy
        e = dict(env, CARGO_TARGET_DIR=os.path.join(mut, ".t-target"))
        rc, o = sh(["cargo", "test", "--offline", "--lib"], mut, e)
        m = re.search(r"test result: (\w+)\. (\d+) passed; (\d+) failed", o)
        # the 32 existing tests must pass; a change may bring tests of its own
        out["suite_passes_with_patch"] = bool(rc == 0 and m and m.group(1) == "ok" and int(m.group(2)) >= 32 and int(m.group(3)) == 0)
        out["lib_tests_run_with_patch"] = int(m.group(2)) if m else None
        rc, o = sh(["cargo", "build", "--offline", "--features", "verif-hooks"], mut, e)
        out["builds_with_hooks"] = rc == 0
        # 1 + 3. the demonstration
        for demo in demos:
            for tree in (clean, mut):
                os.makedirs(os.path.join(tree, "tests"), exist_ok=True)
                shutil.copy(demo, os.path.join(tree, "tests", os.path.basename(demo)))
        name = os.path.splitext(os.path.basename(demos[0]))[0] if demos else None
        if name:
            e1 = dict(env, CARGO_TARGET_DIR=os.path.join(clean, ".t-target"))
            rc1, o1 = sh(["cargo", "test", "--offline", "--test", name], clean, e1)
            rc2, o2 = sh(["cargo", "test", "--offline", "--test", name], mut, e)
            out["demo_passes_without_patch"] = rc1 == 0
            # a demo "fails" when a test fails or when it no longer compiles against the changed crate (compile-time properties)
            out["demo_fails_with_patch"] = rc2 != 0 and ("test result: FAILED" in o2 or "error" in o2)
            if rc2 == 0:
                # some changes only show in a build without debug assertions: try the release profile as well
                rc1r, _ = sh(["cargo", "test", "--offline", "--release", "--test", name], clean, e1)
                rc2r, o2r = sh(["cargo", "test", "--offline", "--release", "--test", name], mut, e)
                if rc1r == 0 and rc2r != 0 and "test result: FAILED" in o2r:
                    out["demo_fails_with_patch"] = True
                    out["demo_fails_only_in_release_profile"] = True
            if rc1 != 0:
                out["demo_clean_output"] = o1[-600:]
            # remove the demo again so the checks see only the src change
            for tree in (clean, mut):
                os.remove(os.path.join(tree, "tests", os.path.basename(demos[0])))
        # 4. the checks
        caught, detail, rcs = [], {}, {}
        env2 = dict(os.environ, VERIF_REPO=mut, CARGO_NET_OFFLINE="true")
        for pr in props:
            t0 = time.time()
            rc, o = sh([os.path.join(VERIF, "check"), pr, "--tier", tier], VERIF, env2, timeout=7200)
            rcs[pr] = rc
            if rc == 1 and ("VIOLATION property=%s " % pr) in o:
                caught.append(pr)
                lines = [l.strip() for l in o.splitlines() if l.startswith("  ")]
                detail[pr] = {"first": lines[0][:300] if lines else "", "signatures": len([l for l in o.splitlines() if l.startswith("VIOLATION")]), "wall_s": round(time.time() - t0, 1)}
            elif rc not in (0, 1):
                detail[pr] = {"rc": rc, "tail": " | ".join(o.strip().splitlines()[-3:])[:400]}
        out["caught_by"] = caught
        out["detail"] = detail
        out["exit_codes"] = rcs
    finally:
        shutil.rmtree(root, ignore_errors=True)
    print(json.dumps(out, ensure_ascii=False))


if __name__ == "__main__":
    main()
