#!/usr/bin/env python3
"""Writes /verif/MANIFEST.json from the table below (kept as code so it stays consistent)."""
import json, os, subprocess
VERIF = os.path.dirname(os.path.dirname(os.path.abspath(__file__)))

# property -> (technique, level text, level note, design ref)
CHECKS = {
 "C01": ("runtime monitor: real ScancodeSet2 / Keyboard::add_byte run in lock-step with a reference prefix automaton + transcribed Set 2 table; product-BFS over every (decoder state, byte) transition, seeded hostile byte histories, all 2^24 three-byte streams (thorough); ordered pairs/triples of the byte bursts real keyboards send and typematic runs; long cyclic runs of a prefix-rich typing period verified on its first pass (2^32 calls in the process on 16 decoders in quick, plus 2^32 on one decoder in thorough); repeated from every further constructor the tree offers; counters found in the executable's static memory while the workload runs are set to just below 2^8 / 2^16 / 2^32 (widths confirmed by observed carries) and the oracle is run across each wrap",
         "Every one of the decoder's reachable (state, byte) transitions is executed on the real code and compared with the reference, so for the finite transition relation the exploration is complete; unbounded stream length is covered by state closure (hook makes the whole state observable) plus sampled long hostile histories. Held-on-what-was-observed, not a proof.",
         "Trusted: refs/set2.tsv transcription of the IBM/Microsoft table (cross-checked against the README table at run time); the verif-hooks derives expose the decoder's complete state.", "5/C01"),
 "C02": ("runtime monitor: real ScancodeSet1 / Keyboard::add_byte in lock-step with a reference prefix automaton + transcribed Set 1 table; product-BFS over all 768 transitions, hostile histories, all 2^24 streams (thorough); real-world bursts, typematic runs and long cyclic runs (2·2^32 calls in the process in quick, 6·2^32 plus 2^32 on one decoder in thorough) as C01; repeated from every further constructor the tree offers; counters found in the executable's static memory while the workload runs are set to just below 2^8 / 2^16 / 2^32 (widths confirmed by observed carries) and the oracle is run across each wrap",
         "As C01 for Set 1. The 20 transitions of the five JIS keys are a genuine, recorded defect (known_findings.json K1); any other divergence is reported.",
         "Trusted: refs/set1.tsv transcription (JIS keys at the unprefixed codes, as the property states).", "5/C02"),
 "C03": ("offline oracle over a recorded cube of all 3.8M real map_keycode calls: transcribed national-standard tables per (layout, key, level) × every modifier set selecting that level × 3 layout forms (a key with an AltGr character in some AltGr-selecting state must have it in all); the same reference applied to every press typed through Keyboard::process_keyevent in hostile histories; end-to-end typing through Keyboard from reference scancodes of both sets; ABA histories with exactly 2^8 / 2^16 (thorough: 2^32, streamed) modifier changes between two presses of one key; further unit layouts shipped by the tree are typed through as well (reference-free part)",
         "Exhaustive over the finite quantifier domain of the property (all constrained cells × all selecting modifier sets × both modes); what is trusted is the transcription of the standards, which is written out in DESIGN.md A.3 for audit.",
         "Trusted: refs/layouts/*.tsv; cells where deployed standards differ accept each attested variant; AltGr constrained only where it differs from base.", "5/C03"),
 "C04": ("runtime monitor: modifier-record model in lock-step with the real decoder; BFS closure of the real Keyboard's state graph (1024 states) × every key × 3 key states × setters, probe presses through a recording layout, seeded hostile event histories over all layouts / both sets / bare EventDecoder; novelty-guided exploration of the Keyboard's Debug rendering (a state is expanded when it shows a pair of field values not seen before) with the model compared on every child; a hostile user-defined layout; further bool switches of Keyboard found in the tree are extra operations; counters found in the executable's static memory while the workload runs are set to just below 2^8 / 2^16 / 2^32 (widths confirmed by observed carries) and the oracle is run across each wrap",
         "Complete over the finite transition relation (every transition of every reachable state executed on the real code); histories of unbounded length are covered by closure plus sampled long runs.",
         "Trusted: the 12-line model is the statement of C04; Debug rendering of Keyboard shows the complete decoder state.", "5/C04"),
 "C05": ("runtime monitor: independent frame rule vs real Ps2Decoder::add_word on all 2048 words (new() and Default::default()), all single/double-bit corruptions of every valid frame, every frame through add_bit on a fresh decoder / after a frame of each class / after clear() from abandoned partial frames, Keyboard::add_word in every scancode prefix state against rule∘twin decoder (child process); 2^17+ rejected frames in a row and long mixed runs through add_bit; repeated from every further Ps2Decoder constructor the tree offers; counters found in the executable's static memory while the workload runs are set to just below 2^8 / 2^16 / 2^32 (widths confirmed by observed carries) and the oracle is run across each wrap",
         "Exhaustive over all 2048 frames (the whole domain the property constrains).", "Trusted: the 8-line frame rule written from the property statement / PS/2 protocol.", "5/C05"),
 "C06": ("runtime monitor: shadow shift register + differential against the crate's own whole-word decoding (add_word); partial-state graph extracted from the real decoder (2047 states × 2 bits), all 2048² ordered frame pairs bit-serially, clear() from every partial state, seeded noisy bit streams with random clear(); every frame repeated 40 / 300 000 / 2 000 000 times, frame triples, one run of more than 2^32 bits through one decoder (both tiers); counters found in the executable's static memory while the workload runs are set to just below 2^8 / 2^16 / 2^32 (widths confirmed by observed carries) and the oracle is run across each wrap",
         "Exhaustive over every partial state × bit and every ordered frame pair; frames after clear() sampled in quick, exhaustive in thorough; unbounded streams by closure + 10^9 noisy bits (thorough).",
         "Trusted: Ps2Decoder's derived Debug shows its whole state (only used for the 'back to fresh' check; the pair sweep is behavioural).", "5/C06"),
 "C07": ("runtime monitor, reference-table-free: after every event/error the real decoder must == new() (hook) and a cloned twin must answer like a fresh decoder; every result must equal what a fresh decoder returns for the bytes since the last event/error; None-run bound; all 2^24 three-byte streams (quick) / all 2^32 four-byte streams (thorough) for both sets, plus garbage histories; behavioural probes after real-world bursts; the whole monitor repeated from every further constructor of the scancode sets that the tree offers (build-time discovery)",
         "Exhaustive over every (state, byte) transition and over all streams up to length 3 (quick) / 4 (thorough), which exceeds the longest sequence (3 bytes) by one, so any leak across a sequence boundary is exercised.", "Trusted: nothing beyond the hook derives.", "5/C07"),
 "C08": ("runtime monitor: catch_unwind around every call in a build with overflow checks + debug assertions, driving every (reachable state × input) pair of every stage, all 65 536 u16 words, all 30 layout objects × 124 × 512 × 2, soak workloads (each frame / byte / event repeated 70 000 times), hostile mixtures; per-public-operation call counts; a crash of the monitor process is a violation; a Miri (UB-detecting interpreter) pass over a reduced version of the same workloads (quick: one seeded slice covering all scancode transitions and every layout; thorough: 16 shards, 1.1M interpreted calls), interpreted and native checksums compared; thorough: more than 2^32 operations on one object of each stage (scancode sets, Ps2Decoder::add_bit, EventDecoder::process_keyevent); repeated from every further decoder constructor the tree offers; counters found in the executable's static memory while the workload runs are set to just below 2^8 / 2^16 / 2^32 (widths confirmed by observed carries) and the oracle is run across each wrap",
         "All finite (state × input) spaces are driven completely, so a panic on any input in any reachable state of a single stage is observed; Miri adds UB detection on ~10^5 interpreted calls.",
         "Trusted: rustc's overflow checks; panic=unwind; state reachability as established by the closures of C01–C07/C04.", "5/C08"),
 "C09": ("offline metamorphic oracle over the recorded cube: a key's observed unmodified output defines its letter; Ctrl+letter must give that letter's control character; otherwise the mode / Ctrl must change nothing; 10 layouts × 124 × 512 × 2, and the same predicate on every press typed through Keyboard::process_keyevent in hostile histories; ABA histories (2^8 / 2^16 / thorough 2^32 changes); further unit layouts shipped by the tree",
         "Exhaustive over the whole quantifier domain; reference-free.", "Trusted: none beyond the harness.", "5/C09"),
 "C10": ("offline metamorphic oracle over the recorded cube: letter keys (observed lower/upper pair) must treat CapsLock as inverted Shift, all other keys must ignore it; 256 CapsLock pairs × 124 × 10 layouts × 2, and the same predicate on every press typed through Keyboard::process_keyevent in hostile histories; ABA histories (2^8 / 2^16 / thorough 2^32 changes); further unit layouts shipped by the tree",
         "Exhaustive; reference-free (letter-ness is read off the observed outputs, Unicode-aware).", "Trusted: Rust's char::to_uppercase for the lower/upper relation.", "5/C10"),
 "C11": ("offline oracle over the recorded cube: outputs must be constant on each of the 32 abstract (Shift, Ctrl, AltGr, CapsLock, NumLock-for-numpad) classes; every press typed through Keyboard::process_keyevent in hostile histories must type what its class determines; five predicates on all 512 values against their formulas; further unit layouts shipped by the tree; KeyboardLayout implementations the harness cannot construct are listed as not covered",
         "Exhaustive; reference-free.", "Trusted: none.", "5/C11"),
 "C12": ("offline search over the recorded cube: every layout must produce all 95 printable ASCII characters at the unshifted, shifted or AltGr level; further unit layouts shipped by the tree (pub use in layouts/mod.rs) are discovered at build time and searched too",
         "Exhaustive; reference-free.", "Trusted: none.", "5/C12"),
 "C13": ("relational runtime monitor: both real decoders on sequences paired through the i8042 translation table (forward: all translatable Set 2 codes × 3 contexts × make/break; converse: every Set 1 event against its pre-images); end-to-end typing sessions through a streaming controller model into two Keyboards; typematic runs of 300+ repeats in the end-to-end sessions",
         "Exhaustive over the code space; the 20 JIS-key pairs are a recorded genuine defect (K1).", "Trusted: refs/i8042_xlate.tsv (Brouwer §10).", "5/C13"),
 "C14": ("runtime monitor with a recording layout that answers each consultation with a unique token: from every decoder state every key × 3 key states, all orderings of mode/layout changes between two presses, hostile histories with interleaved set_ctrl_handling / change_layout; plus, on the ten typed Keyboard<L,_> instantiations, every press in hostile histories compared with a direct call of the shipped layout at the reported modifiers and mode; the same differential over a hostile user-defined layout, two keys pressed alternately 70 000 times (thorough 2^32) without release, ABA histories (2^8 / 2^16 / thorough 2^32 changes); novelty-guided exploration of the Keyboard's Debug rendering with the differential on every child; further bool switches of Keyboard found in the tree are extra operations; counters found in the executable's static memory while the workload runs are set to just below 2^8 / 2^16 / 2^32 (widths confirmed by observed carries) and the oracle is run across each wrap",
         "Complete over the 1024 × 124 × 3 transition space and over all short orderings; longer histories sampled.", "Trusted: the live modifier record is read from EventDecoder's Debug rendering.", "5/C14"),
 "C15": ("offline oracle over the recorded cube: small tables (numpad digit ↔ navigation alias, operators, decimal separator per layout, six editing keys) in all 512 × 2 states × 10 layouts, and on every press typed through Keyboard::process_keyevent in hostile histories (numpad keys re-pressed while held, NumLock toggled in between); ABA histories (2^8 / 2^16 / thorough 2^32 changes); further unit layouts shipped by the tree",
         "Exhaustive.", "Trusted: tables of DESIGN.md A.4.", "5/C15"),
 "C16": ("offline oracle over the recorded cube (30 layout objects): 52 character-less keys must be RawKey(self) everywhere; any RawKey output must be the key itself or its NumLock-off alias; the same on every press typed through Keyboard::process_keyevent in hostile histories; further unit layouts shipped by the tree; further bool switches of Keyboard are extra operations in the histories",
         "Exhaustive.", "Trusted: the list of 52 character-less keys (DESIGN.md A.4).", "5/C16"),
 "C17": ("differential over the recorded cube: AnyLayout by value and by reference vs the wrapped layout (2.5M comparisons), change_layout through all 100 ordered variant pairs; static-memory watch: the executable's writable static memory is snapshotted around AnyLayout look-ups, and if look-ups write there, inputs that leave a written word with the same value are looked up back to back and compared with the wrapped layout (finds caches keyed on a lossy hash); counters found in the executable's static memory while the workload runs are set to just below 2^8 / 2^16 / 2^32 (widths confirmed by observed carries) and the oracle is run across each wrap",
         "Exhaustive.", "Trusted: none.", "5/C17"),
 "C18": ("differential runtime monitor: every operation applied to a real Keyboard and to three separately owned real stage objects; results, sub-state renderings and isolation compared after each op; per-operation sweeps with other stages parked non-initial; hostile interleavings of all six entry points with line noise, both sets; all 65 536 u16 values into add_word; the same differential with a scripted user-defined ScancodeSet that returns every Error variant",
         "Per-operation sweeps are complete over the fed stage's (state, input) space with the other stages parked in sampled non-initial states; interleavings sampled (10^6 quick / 2·10^8 thorough).",
         "Trusted: Debug renderings expose complete stage state.", "5/C18"),
 "C19": ("reference-free runtime monitor: both real decoders × 3 contexts × every code in make and break form: press⇔release pairing and injectivity of sequence→key, from fresh decoders and with one sequence of history (press then release on one decoder; all ordered pairs of distinct make sequences on one decoder); make/break form against the decoder's state inside real-world bursts and long histories; repeated from every further constructor",
         "Exhaustive.", "Trusted: none.", "5/C19"),
 "C20": ("build-time probe + runtime monitor: one list of every public constructor / const accessor / predicate use expanded as run-time code (must build), as const items + static initialisers + Send/Sync assertions in a #![no_std] crate (rustc decides; failure = violation with the diagnostics as witness), and as a three-way const vs static vs run-time behavioural comparison; static Mutex<Keyboard> driven from 4 threads natively and under Miri's data-race detector; by-reference const items (`const X: &T = &T::new()`), so interior mutability in any stage is a build failure of the probe",
         "Const-evaluability and auto-traits are compile-time facts: a runtime monitor cannot observe them, so the deciding step for that half is rustc building the probe (category 'other'); the runtime half shows the const/static-built values behave identically and are usable across threads.",
         "Trusted: rustc; probe_c20/uses.rs lists all public constructors/accessors (10 layouts + AnyLayout by value/by reference × both sets).", "5/C20"),
}

NOT_YET = {}

def main():
    props = [json.loads(l) for l in open(os.path.join(VERIF, "properties.jsonl"))]
    ids = [p["id"] for p in props]
    checks = []
    for pid in ids:
        if pid not in CHECKS:
            continue
        tech, text, note, ref = CHECKS[pid]
        checks.append({
            "property_id": pid,
            "quick_cmd": "./check %s --tier quick" % pid,
            "thorough_cmd": "./check %s --tier thorough" % pid,
            "evidence_file": "/verif/evidence/%s.json" % pid,
            "replay_cmd_template": "./check %s --replay {path}" % pid,
            "engine": "pckb-verif",
            "level_claimed": {"category": "other" if pid == "C20" else "exploration", "text": text, "design_ref": "DESIGN.md §" + ref},
            "level_note": note,
            "technique": tech,
        })
    hooks_commits = subprocess.run(["git", "-C", "/repo", "log", "--format=%H %s"], capture_output=True, text=True).stdout.splitlines()
    hook_shas = [l.split()[0] for l in hooks_commits if "verif-hooks" in l]
    m = {
        "version": 1,
        "setup_cmd": "./check --setup",
        "hooks": {
            "guard": "cargo feature `verif-hooks` (off by default)",
            "enable": "the harness crate depends on pc-keyboard with features = [\"verif-hooks\"] (path dependency on /repo, rebuilt from the working tree by every check)",
            "baseline_off_cmd": "cd /repo && cargo test --workspace --no-fail-fast --offline",
            "source_commits": hook_shas,
            "add_only": True,
        },
        "engines": [{
            "name": "pckb-verif",
            "path": "/verif/harness",
            "serves_properties": [c["property_id"] for c in checks],
            "kind_free_text": "std-only Rust harness that executes the real crate (built from /repo's working tree, overflow checks and debug assertions on) under exhaustive and seeded hostile workloads while independent oracles (transcribed standards tables, executable models of the property statements, differential/metamorphic relations) watch every call; driven by the python entry point ./check which matches violation signatures against known_findings.json and writes the evidence",
        }],
        "checks": checks,
        "notes": "Runtime monitoring only. Exit 0 = held on everything observed (KNOWN-FINDING lines for listed genuine defects), 1 = VIOLATION (replay file under /verif/replays), 3 = INCONCLUSIVE (never on the unchanged tree). See DESIGN.md.",
        "not_applicable": [{"property_id": pid, "reason": NOT_YET.get(pid, "monitor not built yet (work in progress; every property is planned to be claimed, see DESIGN.md §5)")}
                           for pid in ids if pid not in CHECKS],
    }
    with open(os.path.join(VERIF, "MANIFEST.json"), "w") as f:
        json.dump(m, f, indent=1)
        f.write("\n")
    print("claimed:", len(checks), "not_applicable:", len(m["not_applicable"]))

if __name__ == "__main__":
    main()
