#!/usr/bin/env python3
"""Writes /verif/MANIFEST.json from the table below (kept as code so it stays consistent)."""
import json, os, subprocess
VERIF = os.path.dirname(os.path.dirname(os.path.abspath(__file__)))

# property -> (technique, level text, level note, design ref)
CHECKS = {
 "C01": ("runtime monitor: real ScancodeSet2 / Keyboard::add_byte run in lock-step with a reference prefix automaton + transcribed Set 2 table; product-BFS over every (decoder state, byte) transition, seeded hostile byte histories, all 2^24 three-byte streams (thorough)",
         "Every one of the decoder's reachable (state, byte) transitions is executed on the real code and compared with the reference, so for the finite transition relation the exploration is complete; unbounded stream length is covered by state closure (hook makes the whole state observable) plus sampled long hostile histories. Held-on-what-was-observed, not a proof.",
         "Trusted: refs/set2.tsv transcription of the IBM/Microsoft table (cross-checked against the README table at run time); the verif-hooks derives expose the decoder's complete state.", "5/C01"),
 "C02": ("runtime monitor: real ScancodeSet1 / Keyboard::add_byte in lock-step with a reference prefix automaton + transcribed Set 1 table; product-BFS over all 768 transitions, hostile histories, all 2^24 streams (thorough)",
         "As C01 for Set 1. The 20 transitions of the five JIS keys are a genuine, recorded defect (known_findings.json K1); any other divergence is reported.",
         "Trusted: refs/set1.tsv transcription (JIS keys at the unprefixed codes, as the property states).", "5/C02"),
}

NOT_YET = {}

def main():
    props = [json.loads(l) for l in open(os.path.join(VERIF, "properties.jsonl"))]
    ids = [p["id"] for p in props]
    checks = []
    for pid in ids:
        if pid not in CHECKS:
            continue
        tech, text, note, ref = CHECKS[pid]
        checks.append({
            "property_id": pid,
            "quick_cmd": "./check %s --tier quick" % pid,
            "thorough_cmd": "./check %s --tier thorough" % pid,
            "evidence_file": "/verif/evidence/%s.json" % pid,
            "replay_cmd_template": "./check %s --replay {path}" % pid,
            "engine": "pckb-verif",
            "level_claimed": {"category": "other" if pid == "C20" else "exploration", "text": text, "design_ref": "DESIGN.md §" + ref},
            "level_note": note,
            "technique": tech,
        })
    hooks_commits = subprocess.run(["git", "-C", "/repo", "log", "--format=%H %s"], capture_output=True, text=True).stdout.splitlines()
    hook_shas = [l.split()[0] for l in hooks_commits if "verif-hooks" in l]
    m = {
        "version": 1,
        "setup_cmd": "./check --setup",
        "hooks": {
            "guard": "cargo feature `verif-hooks` (off by default)",
            "enable": "the harness crate depends on pc-keyboard with features = [\"verif-hooks\"] (path dependency on /repo, rebuilt from the working tree by every check)",
            "baseline_off_cmd": "cd /repo && cargo test --workspace --no-fail-fast --offline",
            "source_commits": hook_shas,
            "add_only": True,
        },
        "engines": [{
            "name": "pckb-verif",
            "path": "/verif/harness",
            "serves_properties": [c["property_id"] for c in checks],
            "kind_free_text": "std-only Rust harness that executes the real crate (built from /repo's working tree, overflow checks and debug assertions on) under exhaustive and seeded hostile workloads while independent oracles (transcribed standards tables, executable models of the property statements, differential/metamorphic relations) watch every call; driven by the python entry point ./check which matches violation signatures against known_findings.json and writes the evidence",
        }],
        "checks": checks,
        "notes": "Runtime monitoring only. Exit 0 = held on everything observed (KNOWN-FINDING lines for listed genuine defects), 1 = VIOLATION (replay file under /verif/replays), 3 = INCONCLUSIVE (never on the unchanged tree). See DESIGN.md.",
        "not_applicable": [{"property_id": pid, "reason": NOT_YET.get(pid, "monitor not built yet (work in progress; every property is planned to be claimed, see DESIGN.md §5)")}
                           for pid in ids if pid not in CHECKS],
    }
    with open(os.path.join(VERIF, "MANIFEST.json"), "w") as f:
        json.dump(m, f, indent=1)
        f.write("\n")
    print("claimed:", len(checks), "not_applicable:", len(m["not_applicable"]))

if __name__ == "__main__":
    main()
