#!/usr/bin/env python3
"""Re-evaluate every stored seeded change (seeded/S*/ and seeded/neutral/A*/) against the current framework.
   tools/seeded_all.py [-j N] [--only-target]   →  prints one line per seed and a summary; exit 1 if a seed's target
   check no longer reports it, or a neutral change raises an alarm.  (--only-target runs just the target property's check.)"""
import concurrent.futures, glob, json, os, subprocess, sys
VERIF = os.path.dirname(os.path.dirname(os.path.abspath(__file__)))

def run(d, only_target):
    meta = json.load(open(os.path.join(d, "meta.json")))
    args = [sys.executable, os.path.join(VERIF, "tools", "seeded_eval.py"), d]
    target = meta.get("breaks_property")
    if only_target and target:
        args += ["--props", target]
    p = subprocess.run(args, stdout=subprocess.PIPE, stderr=subprocess.PIPE, text=True)
    try:
        ev = json.loads(p.stdout.strip().splitlines()[-1])
    except Exception:
        return (d, target, None, p.stderr[-300:])
    return (d, target, ev, "")

def main():
    a = sys.argv[1:]
    j = int(a[a.index("-j") + 1]) if "-j" in a else 5
    only = "--only-target" in a
    dirs = sorted(glob.glob(os.path.join(VERIF, "seeded", "S*"))) + sorted(glob.glob(os.path.join(VERIF, "seeded", "neutral", "A*")))
    bad = 0
    with concurrent.futures.ThreadPoolExecutor(max_workers=j) as ex:
        for d, target, ev, err in ex.map(lambda d: run(d, only), dirs):
            name = os.path.relpath(d, os.path.join(VERIF, "seeded"))
            if ev is None:
                print("%-16s ERROR %s" % (name, err)); bad += 1; continue
            caught = ev.get("caught_by", [])
            if target:
                ok = target in caught
                print("%-16s %-6s caught by %s" % (name, "ok" if ok else "MISSED", ",".join(caught)))
            else:
                rc = {k: v for k, v in ev.get("exit_codes", {}).items() if v != 0}
                ok = not caught and not rc
                print("%-16s %-6s %s" % (name, "silent" if ok else "ALARM", caught or rc or ""))
            bad += 0 if ok else 1
    print("problems:", bad)
    sys.exit(1 if bad else 0)

if __name__ == "__main__":
    main()
