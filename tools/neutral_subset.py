#!/usr/bin/env python3
"""Stored behaviour-preserving changes (seeded/neutral/A*) against a chosen list of checks – the quick way to re-test
specificity after a change that touched only some monitors.
   tools/neutral_subset.py C03,C05,... [-j N]      exit 1 if any check raises an alarm or ends inconclusive"""
import concurrent.futures, glob, json, os, subprocess, sys
VERIF = os.path.dirname(os.path.dirname(os.path.abspath(__file__)))


def run(d, props):
    p = subprocess.run([sys.executable, os.path.join(VERIF, "tools", "seeded_eval.py"), d, "--props", props], stdout=subprocess.PIPE, stderr=subprocess.PIPE, text=True)
    try:
        return d, json.loads(p.stdout.strip().splitlines()[-1]), ""
    except Exception:
        return d, None, p.stderr[-300:]


def main():
    props = sys.argv[1]
    j = int(sys.argv[sys.argv.index("-j") + 1]) if "-j" in sys.argv else 6
    dirs = sorted(glob.glob(os.path.join(VERIF, "seeded", "neutral", "A*")))
    bad = 0
    with concurrent.futures.ThreadPoolExecutor(max_workers=j) as ex:
        for d, ev, err in ex.map(lambda d: run(d, props), dirs):
            n = os.path.basename(d)
            if ev is None:
                print(n, "ERROR", err, flush=True)
                bad += 1
                continue
            rc = {k: v for k, v in ev.get("exit_codes", {}).items() if v != 0}
            ok = not ev.get("caught_by") and not rc
            print("%-5s %s %s" % (n, "silent" if ok else "ALARM", ev.get("caught_by") or rc or ""), flush=True)
            if not ok:
                print(json.dumps(ev.get("detail"), ensure_ascii=False)[:800], flush=True)
            bad += 0 if ok else 1
    print("problems:", bad, flush=True)
    sys.exit(1 if bad else 0)


if __name__ == "__main__":
    main()
