//! C01 / C02 — byte streams decode to exactly the standard key events.
//!
//! Oracle: reference prefix automaton + refs/set{1,2}.tsv, run in lock-step with the real
//! `ScancodeSetN::advance_state` and `Keyboard<_, ScancodeSetN>::add_byte`.

use crate::json::J;
use crate::keys::*;
use crate::layouts::{dyn_layout, DynLayout};
use crate::model::*;
use crate::refs::ScanRef;
use crate::report::*;
use crate::rng::Rng;
use crate::scan::*;
use pc_keyboard::{HandleControl, Keyboard};
use std::collections::{BTreeMap, BTreeSet, VecDeque};

const BFS_CAP: usize = 4096;

fn sig(prop: &str, set: u8, ctx: &Ctx2, b: u8, want: &Want, got: &str) -> String {
    format!(
        "{}|{}|ctx={}|byte=0x{:02X}|want={}|got={}",
        prop,
        set_name(set),
        ctx.name(),
        b,
        want.show(),
        got
    )
}

fn replay_bytes(set: u8, hist: &[u8], want: &Want, got: &str, via: &str) -> J {
    J::obj()
        .with("kind", J::s("bytes"))
        .with("set", J::u(set as u64))
        .with("via", J::s(via))
        .with("bytes", J::Arr(hist.iter().map(|b| J::u(*b as u64)).collect()))
        .with("bytes_hex", J::s(hex_bytes(hist)))
        .with("expected_last", J::s(want.show()))
        .with("observed_last", J::s(got))
}

pub fn run<D: Dec>(prop: &str, rep: &mut Report) {
    let set = D::SET;
    let r = ref_for(set);
    let uni = universe();
    rep.assumptions.push(format!(
        "reference table refs/{}.tsv ({} entries) is a faithful transcription of the IBM/Microsoft Set {} table (DESIGN.md A.1)",
        set_name(set),
        r.entries,
        set
    ));
    rep.assumptions.push("ill-placed prefix bytes (E0/E1 after a prefix, F0 after F0) are codes the table does not define → UnknownKeyCode".into());
    if set == 2 {
        rep.assumptions.push("outcome of F0 00 / F0 AA is not constrained by the statement (Up/SingleShot of that status key or an error are accepted)".into());
    }

    static_counter_wraps::<D>(prop, set, rep);
    let long_run = {
        let (p, thorough) = (prop.to_string(), rep.thorough());
        std::thread::spawn(move || {
            // calls in the process per parallel run: 2^32 · wraps (Set 1 decodes about six times faster than Set 2)
            let wraps: u64 = match (set, thorough) {
                (1, false) => 2,
                (1, true) => 6,
                (_, false) => 1,
                (_, true) => 4,
            };
            if light() {
                return Vec::new();
            }
            let mut v = vec![long_cyclic_run::<D>(p.clone(), set, 16, wraps * (1 << 28) + (1 << 16))];
            if thorough {
                v.push(long_cyclic_run::<D>(p, set, 1, (1 << 32) + (1 << 20)));
            }
            v
        })
    };
    let mut seen_pairs: BTreeSet<(String, u8)> = BTreeSet::new(); // (real state, byte) with non-None outcome
    let mut seen_events: BTreeSet<u16> = BTreeSet::new();

    // ---------------------------------------------------------------- (a) product BFS
    let mut real_states: BTreeSet<String> = BTreeSet::new();
    let mut product: BTreeMap<(String, Ctx2), Vec<u8>> = BTreeMap::new();
    let mut queue: VecDeque<(D, Ctx2, Vec<u8>)> = VecDeque::new();
    let d0 = D::fresh();
    product.insert((format!("{:?}", d0), Ctx2::default()), vec![]);
    real_states.insert(format!("{:?}", d0));
    queue.push_back((d0, Ctx2::default(), vec![]));
    // every reference context is a root as well (reached by its prefix bytes), so that the 6 × 256 / 3 × 256 core
    // transitions are compared even if extra state in the decoder makes the full graph exceed the cap
    for c in contexts(set) {
        let pre = c.prefix_bytes();
        if pre.is_empty() {
            continue;
        }
        let r0 = guarded(|| {
            let mut d = D::fresh();
            for b in pre.iter() {
                let _ = d.advance_state(*b);
            }
            d
        });
        if let Ok(d) = r0 {
            let key = (format!("{:?}", d), c);
            if !product.contains_key(&key) {
                product.insert(key, pre.clone());
                real_states.insert(format!("{:?}", d));
                queue.push_back((d, c, pre));
            }
        }
    }
    // a decoder obtained through `Default::default()` is a decoder too: if it is not the state `new()` gives,
    // it is explored as a second root (its transitions must follow the reference from the empty context as well)
    let dd = guarded(D::default);
    rep.count("default_constructed_decoder_checked", 1);
    if let (false, Ok(dd)) = (ctor_overridden(), dd) {
        let key = (format!("{:?}", dd), Ctx2::default());
        if !product.contains_key(&key) {
            rep.notes.push(format!("Default::default() gives {:?}, which differs from new(): explored as a second start state", dd));
            product.insert(key, vec![]);
            real_states.insert(format!("{:?}", dd));
            queue.push_back((dd, Ctx2::default(), vec![]));
        }
    }
    let mut transitions = 0u64;
    let mut capped = false;
    let mut ctx_seen: BTreeSet<Ctx2> = BTreeSet::new();
    while let Some((d, ctx, path)) = queue.pop_front() {
        ctx_seen.insert(ctx);
        let dname = format!("{:?}", d);
        for b in 0..=255u8 {
            let mut c2 = ctx;
            let want = ref_step(set, &r, &mut c2, b);
            let mut dd = d.clone();
            let got = guarded(|| dd.advance_state(b));
            transitions += 1;
            rep.evaluations += 1;
            let mut hist = path.clone();
            hist.push(b);
            match got {
                Err(p) => {
                    rep.panics += 1;
                    let g = format!("PANIC({})", panic_sig(&p));
                    rep.violate(
                        sig(prop, set, &ctx, b, &want, &g),
                        format!("{} bytes [{}]: panic {}", set_name(set), hex_bytes(&hist), p),
                        replay_bytes(set, &hist, &want, &g, "advance_state"),
                    );
                    continue;
                }
                Ok(res) => {
                    let g = res_str(&res);
                    if !want.accepts(&res) {
                        rep.violate(
                            sig(prop, set, &ctx, b, &want, &g),
                            format!(
                                "{} bytes [{}]: reference says {}, decoder returned {}",
                                set_name(set),
                                hex_bytes(&hist),
                                want.show(),
                                g
                            ),
                            replay_bytes(set, &hist, &want, &g, "advance_state"),
                        );
                    }
                    if !matches!(res, Ok(None)) {
                        seen_pairs.insert((dname.clone(), b));
                        if res.is_ok() {
                            seen_events.insert(enc_res(&res));
                        }
                    }
                    if rep.samples.len() < 6 && matches!(res, Ok(Some(_))) && (b % 37 == 5) {
                        rep.sample_str(format!("{} [{}] → {}", set_name(set), hex_bytes(&hist), g));
                    }
                }
            }
            let key = (format!("{:?}", dd), c2);
            real_states.insert(key.0.clone());
            if !product.contains_key(&key) {
                if product.len() >= BFS_CAP {
                    capped = true;
                    continue;
                }
                product.insert(key, hist.clone());
                queue.push_back((dd, c2, hist));
            }
        }
    }
    rep.states = Some(real_states.len() as u64);
    rep.transitions = Some(transitions);
    rep.count("bfs_product_states", product.len() as u64);
    rep.count("bfs_real_states", real_states.len() as u64);
    rep.count("bfs_transitions", transitions);
    rep.count("reference_contexts_reached", ctx_seen.len() as u64);
    let expect_ctx = contexts(set).len();
    rep.require("reference contexts reached by the BFS", ctx_seen.len() as u64, expect_ctx as u64);
    rep.exhaustive = Some(!capped);
    if capped {
        rep.notes.push(format!("state graph larger than cap {} – transition sweep incomplete", BFS_CAP));
    }

    // ---------------------------------------------------------------- (b) lock-step hostile histories
    let typist = Typist::new(set, &r);
    let (n_hist, hist_len) = if rep.thorough() { (40_000usize, 250usize) } else { (2_000, 100) };
    let threads = n_threads();
    let seed = rep.seed;
    let prop_s = prop.to_string();
    let shards = par_map(threads, move |t| {
        let r = ref_for(set);
        let typist = Typist::new(set, &r);
        let mut out = ShardOut::default();
        let mut h = t;
        while h < n_hist {
            let mut rng = Rng::fork(seed, (h as u64) << 8 | set as u64);
            let which = h % 6;
            // the first sixteen histories are long ones: anything that only shows after many bytes (a counter, a slow leak)
            let this_len = if h < 16 { hist_len * 600 } else { hist_len };
            let bytes = typist.generate(which, &mut rng, this_len);
            lockstep::<D>(&prop_s, set, &r, &bytes, which, &mut out);
            h += threads;
        }
        out
    });
    let _ = typist;
    let mut hist_events = 0u64;
    for s in shards {
        hist_events += s.bytes;
        rep.evaluations += s.bytes * 2;
        rep.panics += s.panics;
        for (k, v) in s.per_gen.iter().enumerate() {
            rep.count(&format!("history_bytes_{}", GEN_NAMES[k]), *v);
        }
        rep.count("histories", s.histories);
        rep.count("history_events_decoded", s.events);
        rep.count("history_errors_decoded", s.errors);
        for (sg, what, rp) in s.violations {
            rep.violate(sg, what, rp);
        }
        for e in s.seen_events {
            seen_events.insert(e);
        }
        for smp in s.samples {
            rep.sample_str(smp);
        }
    }
    rep.count("history_bytes", hist_events);

    // ---------------------------------------------------------------- (b1) a key held down for a very long time: every make sequence
    //      repeated 70 000 times on one decoder (beyond any 16-bit repeat counter), then released; every result judged
    {
        let typist = Typist::new(set, &r);
        let prop_s = prop.to_string();
        let jobs: Vec<(Vec<u8>, Vec<u8>)> = typist.make.iter().cloned().zip(typist.brk.iter().cloned()).collect();
        let jobs = std::sync::Arc::new(jobs);
        let shards = par_map(threads, move |t| {
            let r = ref_for(set);
            let mut out = ShardOut::default();
            let mut j = t;
            while j < jobs.len() {
                let (m, b) = &jobs[j];
                let outcome = guarded(|| {
                    let mut d = D::fresh();
                    let mut ctx = Ctx2::default();
                    for rep_no in 0..70_001u32 {
                        let seq: &Vec<u8> = if rep_no == 70_000 { b } else { m };
                        for (i, x) in seq.iter().enumerate() {
                            let c0 = ctx;
                            let want = ref_step(set, &r, &mut ctx, *x);
                            let g = d.advance_state(*x);
                            if !want.accepts(&g) {
                                return Some((rep_no, i, c0, want, res_str(&g)));
                            }
                        }
                    }
                    None
                });
                out.histories += 1;
                out.bytes += 70_001 * m.len() as u64;
                match outcome {
                    Ok(None) => {}
                    Ok(Some((rep_no, i, c0, want, gs))) => {
                        // a sequence that is wrong on its own is reported by the transition sweep; this is about the repetition
                        if rep_no > 0 {
                            out.violations.push((
                                format!("{}|{}|held-key|ctx={}|byte=0x{:02X}|want={}|got={}", prop_s, set_name(set), c0.name(), m[i.min(m.len() - 1)], want.show(), gs),
                                format!("{} decoder: make sequence [{}] repeated on one decoder (typematic), repetition #{}: byte #{} returned {}; the table says {}", set_name(set), hex_bytes(m), rep_no, i + 1, gs, want.show()),
                                J::obj().with("kind", J::s("held-key")).with("set", J::u(set as u64)).with("make_hex", J::s(hex_bytes(m))).with("repetition", J::u(rep_no as u64)),
                            ));
                        }
                    }
                    Err(p) => {
                        out.panics += 1;
                        out.violations.push((
                            format!("{}|{}|held-key|panic|{}", prop_s, set_name(set), panic_sig(&p)),
                            format!("{} decoder: make sequence [{}] repeated up to 70 000 times on one decoder (typematic) panicked where the table defines a result: {}", set_name(set), hex_bytes(m), p),
                            J::obj().with("kind", J::s("held-key")).with("set", J::u(set as u64)).with("make_hex", J::s(hex_bytes(m))),
                        ));
                    }
                }
                j += threads;
            }
            out
        });
        let mut n = 0u64;
        for s in shards {
            n += s.histories;
            rep.evaluations += s.bytes;
            rep.panics += s.panics;
            for (sg, what, rp) in s.violations {
                rep.violate(sg, what, rp);
            }
        }
        rep.count("make_sequences_held_for_70000_repeats", n);
    }

    // ---------------------------------------------------------------- (b1+) checkpointed soaks: one thing repeated up to 2^24 (thorough 2^26) times on a
    //      decoder that has a history – a held key after a prefixed sequence was typed, or a run of rejected bytes – and at every
    //      count 2^k + d (d = -3..3) a clone of the decoder (hook) must still decode a set of probe sequences as the table says
    {
        let typist = Typist::new(set, &r);
        let undefined = typist.undefined_codes.iter().copied().find(|c| ![0xE0u8, 0xE1, 0xF0].contains(c)).unwrap_or(0xFF);
        let kmax: u32 = if light() { 17 } else if rep.thorough() { 26 } else { 24 };
        let mut checkpoints: BTreeSet<u64> = BTreeSet::new();
        for k in 8..=kmax {
            for d in -3i64..=3 {
                checkpoints.insert(((1i64 << k) + d) as u64);
            }
        }
        let checkpoints: Vec<u64> = checkpoints.into_iter().collect();
        let total = *checkpoints.last().unwrap();
        // probes: a few sequences of every prefix context that share codes, each make + break
        let mut probes: Vec<Vec<u8>> = Vec::new();
        for (i, (m, b)) in typist.make.iter().zip(typist.brk.iter()).enumerate() {
            if i % 9 == 0 || m.len() > 1 && i % 4 == 0 {
                let mut v = m.clone();
                v.extend(b);
                probes.push(v);
            }
        }
        // a sequence that is wrong on a fresh decoder is reported by the transition sweep (K1); the soak is about history
        probes.retain(|pr| {
            guarded(|| {
                let mut d = D::fresh();
                let mut c = Ctx2::default();
                pr.iter().all(|b| {
                    let want = ref_step(set, &r, &mut c, *b);
                    want.accepts(&d.advance_state(*b))
                })
            })
            .unwrap_or(false)
        });
        probes.truncate(24);
        // (pre-history, the unit that is repeated)
        let first_ext = typist.make.iter().find(|m| m.len() == 2 && m[0] == 0xE0).cloned().unwrap_or_default();
        let plain_make = typist.make.iter().find(|m| m.len() == 1).cloned().unwrap_or_default();
        let ext_make = typist.make.iter().rev().find(|m| m.len() == 2 && m[0] == 0xE0).cloned().unwrap_or_default();
        let jobs: Vec<(&'static str, Vec<u8>, Vec<u8>)> = vec![
            ("a plain key held after an E0 sequence", first_ext.clone(), plain_make.clone()),
            ("an E0 key held after a plain sequence", plain_make.clone(), ext_make.clone()),
            ("a rejected byte repeated", first_ext.clone(), vec![undefined]),
            ("an ill-placed prefix pair repeated", plain_make.clone(), vec![0xE0, 0xE0]),
        ];
        let prop_s = prop.to_string();
        let jobs = std::sync::Arc::new(jobs);
        let (cps, prb) = (std::sync::Arc::new(checkpoints), std::sync::Arc::new(probes));
        let njobs = jobs.len();
        let shards = par_map(njobs, move |t| {
            let r = ref_for(set);
            let (what, pre, unit) = &jobs[t];
            let mut out = ShardOut::default();
            if unit.is_empty() {
                return out;
            }
            let res = guarded(|| {
                let mut d = D::fresh();
                let mut ctx = Ctx2::default();
                for b in pre.iter() {
                    let _ = ref_step(set, &r, &mut ctx, *b);
                    let _ = d.advance_state(*b);
                }
                // the unit's own results are fixed by the reference: take them once
                let mut unit_ctx = ctx;
                let unit_want: Vec<Want> = unit.iter().map(|b| ref_step(set, &r, &mut unit_ctx, *b)).collect();
                if unit_ctx != Ctx2::default() {
                    return None;
                }
                let mut next_cp = 0usize;
                let mut n = 0u64;
                while n < total {
                    for (i, b) in unit.iter().enumerate() {
                        let g = d.advance_state(*b);
                        if !unit_want[i].accepts(&g) {
                            return Some((n, format!("repetition #{} of [{}]: byte 0x{:02X} returned {}; the table says {}", n + 1, hex_bytes(unit), b, res_str(&g), unit_want[i].show()), format!("unit|byte=0x{:02X}|want={}|got={}", b, unit_want[i].show(), res_str(&g))));
                        }
                    }
                    n += 1;
                    if next_cp < cps.len() && n == cps[next_cp] {
                        next_cp += 1;
                        for pr in prb.iter() {
                            let mut dd = d.clone();
                            let mut c = Ctx2::default();
                            for b in pr.iter() {
                                let c0 = c;
                                let want = ref_step(set, &r, &mut c, *b);
                                let g = dd.advance_state(*b);
                                if !want.accepts(&g) {
                                    return Some((n, format!("after {} repetitions of [{}], the sequence [{}]: byte 0x{:02X} in context {} returned {}; the table says {}", n, hex_bytes(unit), hex_bytes(pr), b, c0.name(), res_str(&g), want.show()), format!("probe|ctx={}|byte=0x{:02X}|want={}|got={}", c0.name(), b, want.show(), res_str(&g))));
                                }
                            }
                        }
                    }
                }
                None
            });
            out.histories += 1;
            out.bytes += total * unit.len() as u64;
            match res {
                Ok(None) => {}
                Ok(Some((n, whatmsg, sg))) => out.violations.push((
                    format!("{}|{}|checkpointed-soak|{}", prop_s, set_name(set), sg),
                    format!("{} decoder, {} (after [{}]): {}", set_name(set), what, hex_bytes(pre), whatmsg),
                    J::obj().with("kind", J::s("checkpointed-soak")).with("set", J::u(set as u64)).with("pre_hex", J::s(hex_bytes(pre))).with("unit_hex", J::s(hex_bytes(unit))).with("repetitions", J::u(n)),
                )),
                Err(p) => {
                    out.panics += 1;
                    out.violations.push((
                        format!("{}|{}|checkpointed-soak|panic|{}", prop_s, set_name(set), panic_sig(&p)),
                        format!("{} decoder, {} (after [{}], unit [{}]) panicked where the table defines a result: {}", set_name(set), what, hex_bytes(pre), hex_bytes(unit), p),
                        J::obj().with("kind", J::s("checkpointed-soak")).with("set", J::u(set as u64)).with("pre_hex", J::s(hex_bytes(pre))).with("unit_hex", J::s(hex_bytes(unit))),
                    ));
                }
            }
            out
        });
        let mut n = 0u64;
        for s in shards {
            n += s.histories;
            rep.evaluations += s.bytes;
            rep.panics += s.panics;
            for (sg, what, rp) in s.violations {
                rep.violate(sg, what, rp);
            }
        }
        rep.count("checkpointed_soaks", n);
    }

    // ---------------------------------------------------------------- (b1') a long time of clean typing, then one fault, then a sequence:
    //      whatever the decoder has learnt from a proven-good line must not change how it treats the next fault
    {
        let (period, _) = verified_period::<D>(set);
        let typist = Typist::new(set, &r);
        let undefined = typist.undefined_codes.iter().copied().find(|c| ![0xE0u8, 0xE1, 0xF0].contains(c)).unwrap_or(0xFF);
        let faults: Vec<Vec<u8>> = vec![vec![undefined], vec![0xE0, undefined], vec![0xE0, 0xE0], vec![0xE1, 0xE0], vec![0x00], vec![0xFF], vec![0xFA], vec![0xFE], vec![0xE0], vec![0xE1]];
        let mut probes: Vec<Vec<u8>> = special_sequences(set).into_iter().take(6).collect();
        for (i, (m, b)) in typist.make.iter().zip(typist.brk.iter()).enumerate() {
            if i % 11 == 0 {
                let mut v = m.clone();
                v.extend(b);
                probes.push(v);
            }
        }
        let mut out = ShardOut::default();
        if !period.is_empty() {
            for clean in [64usize, 1000, 4200, 70_000] {
                let mut head: Vec<u8> = Vec::with_capacity(clean + period.len());
                while head.len() < clean {
                    head.extend(period.iter());
                }
                for f in faults.iter() {
                    for pr in probes.iter() {
                        let mut bytes = head.clone();
                        bytes.extend(f);
                        bytes.extend(pr);
                        bytes.extend(pr);
                        lockstep_bare::<D>(prop, set, &r, &bytes, &mut out);
                    }
                }
            }
        }
        rep.count("clean_typing_then_fault_then_sequence_histories", out.histories);
        rep.evaluations += out.bytes;
        rep.panics += out.panics;
        for (sg, what, rp) in out.violations {
            rep.violate(sg, what, rp);
        }
    }

    // ---------------------------------------------------------------- (b1'') a stuck or repeated prefix byte: P^k · s1 · P^j · s2 for every prefix
    //      byte P, run lengths k, j = 0..12 and sequences s1, s2 that share codes across contexts (whatever accumulates the bytes
    //      of a sequence must start afresh after the errors a run of prefixes produces)
    {
        let typist = Typist::new(set, &r);
        let prefixes: Vec<u8> = if set == 2 { vec![0xE0, 0xE1, 0xF0] } else { vec![0xE0, 0xE1] };
        // sequences whose last byte also occurs under another prefix context, plus the bursts
        let mut by_last: BTreeMap<u8, Vec<Vec<u8>>> = BTreeMap::new();
        for sq in typist.make.iter().chain(typist.brk.iter()) {
            by_last.entry(*sq.last().unwrap()).or_default().push(sq.clone());
        }
        let mut sample: Vec<Vec<u8>> = Vec::new();
        for (_, v) in by_last.iter().filter(|(_, v)| v.len() >= 2) {
            if sample.len() < 14 {
                sample.extend(v.iter().take(3).cloned());
            }
        }
        sample.extend(special_sequences(set).into_iter().take(4));
        sample.truncate(20);
        let mut out = ShardOut::default();
        for p in prefixes.iter() {
            for k in 0..=12usize {
                for j in 0..=12usize {
                    for (a, s1) in sample.iter().enumerate() {
                        // s2: the sequences that follow s1 in the sample (keeps the sweep quadratic in run lengths, linear in pairs)
                        for s2 in sample.iter().skip(a).take(4) {
                            let mut bytes: Vec<u8> = vec![*p; k];
                            bytes.extend(s1);
                            bytes.extend(std::iter::repeat(*p).take(j));
                            bytes.extend(s2);
                            bytes.extend(s2);
                            lockstep_bare::<D>(prop, set, &r, &bytes, &mut out);
                        }
                        // the same run-and-sequence group several times over, then a run of another length before it
                        // (whatever recognises a *repeated* group by its last few bytes forgets what lies further back)
                        if k >= 1 && (k + j) % 3 == 0 {
                            for reps in [3usize, 4, 5, 6] {
                                let mut bytes: Vec<u8> = Vec::new();
                                for _ in 0..reps {
                                    bytes.extend(std::iter::repeat(*p).take(k));
                                    bytes.extend(s1);
                                }
                                bytes.extend(std::iter::repeat(*p).take(j));
                                bytes.extend(s1);
                                bytes.extend(s1);
                                lockstep_bare::<D>(prop, set, &r, &bytes, &mut out);
                            }
                        }
                    }
                }
            }
        }
        rep.count("repeated_prefix_run_histories", out.histories);
        rep.evaluations += out.bytes;
        rep.panics += out.panics;
        for (sg, what, rp) in out.violations {
            rep.violate(sg, what, rp);
        }
    }

    // ---------------------------------------------------------------- (b2) every ordered triple of real-world bursts, from a fresh decoder
    {
        let sp = special_sequences(set);
        let mut out = ShardOut::default();
        for a in sp.iter() {
            for b in sp.iter() {
                for c in sp.iter() {
                    let mut bytes = a.clone();
                    bytes.extend(b);
                    bytes.extend(c);
                    lockstep_bare::<D>(prop, set, &r, &bytes, &mut out);
                }
            }
        }
        rep.count("ordered_triples_of_real_world_bursts", out.histories);
        rep.evaluations += out.bytes;
        rep.panics += out.panics;
        for (sg, what, rp) in out.violations {
            rep.violate(sg, what, rp);
        }
    }

    // ---------------------------------------------------------------- (c) thorough: all 2^24 three-byte streams
    if rep.thorough() {
        let prop_s = prop.to_string();
        let shards = par_map(threads, move |t| {
            let r = ref_for(set);
            let mut out = ShardOut::default();
            let mut b0 = t;
            while b0 < 256 {
                for b1 in 0..=255u8 {
                    for b2 in 0..=255u8 {
                        let bytes = [b0 as u8, b1, b2];
                        lockstep_bare::<D>(&prop_s, set, &r, &bytes, &mut out);
                    }
                }
                b0 += threads;
            }
            out
        });
        let mut n = 0;
        for s in shards {
            n += s.histories;
            rep.evaluations += s.bytes;
            rep.panics += s.panics;
            for (sg, what, rp) in s.violations {
                rep.violate(sg, what, rp);
            }
        }
        rep.count("three_byte_streams_from_fresh", n);

        // all 2^32 four-byte streams: decoder and model are walked over the 3-byte prefix once, then the
        // decoder is cloned (hook) for each of the 256 fourth bytes
        let prop_s = prop.to_string();
        let shards = par_map(threads, move |t| {
            let r = ref_for(set);
            let mut out = ShardOut::default();
            let mut b0 = t;
            while b0 < 256 {
                for b1 in 0..=255u8 {
                    for b2 in 0..=255u8 {
                        let pre = [b0 as u8, b1, b2];
                        let mut d = D::fresh();
                        let mut ctx = Ctx2::default();
                        let mut ok = true;
                        for b in pre.iter() {
                            let want = ref_step(set, &r, &mut ctx, *b);
                            match guarded(|| d.advance_state(*b)) {
                                Ok(g) if want.accepts(&g) => {}
                                _ => {
                                    ok = false; // already reported by the three-byte sweep
                                    break;
                                }
                            }
                        }
                        if !ok {
                            continue;
                        }
                        for b3 in 0..=255u8 {
                            let mut dd = d.clone();
                            let mut c2 = ctx;
                            let want = ref_step(set, &r, &mut c2, b3);
                            out.bytes += 1;
                            let g = guarded(|| dd.advance_state(b3));
                            let bad = match &g {
                                Ok(g) => !want.accepts(g),
                                Err(_) => true,
                            };
                            if bad && out.violations.len() < 2000 {
                                let gs = match &g {
                                    Ok(g) => res_str(g),
                                    Err(p) => format!("PANIC({})", panic_sig(p)),
                                };
                                let hist = [pre[0], pre[1], pre[2], b3];
                                out.violations.push((
                                    sig(&prop_s, set, &ctx, b3, &want, &gs),
                                    format!("{} stream [{}] from a fresh decoder: reference says {}, decoder returned {}", set_name(set), hex_bytes(&hist), want.show(), gs),
                                    replay_bytes(set, &hist, &want, &gs, "advance_state"),
                                ));
                            }
                        }
                        out.histories += 256;
                    }
                }
                b0 += threads;
            }
            out
        });
        let mut n4 = 0;
        for s in shards {
            n4 += s.histories;
            rep.evaluations += s.bytes;
            for (sg, what, rp) in s.violations {
                rep.violate(sg, what, rp);
            }
        }
        rep.count("four_byte_streams_from_fresh", n4);
    }

    if let Ok(runs) = long_run.join() {
        for (bytes, viol, note) in runs {
            rep.evaluations += bytes;
            rep.count("bytes_in_long_runs", bytes);
            rep.notes.push(note);
            for (sg, what, rp) in viol {
                rep.violate(sg, what, rp);
            }
        }
    }
    rep.distinct_nontrivial = seen_pairs.len() as u64;
    rep.rule = format!(
        "every (real decoder state, byte) transition reachable from new() compared with the reference automaton (product BFS, cap {}), \
         plus seeded hostile byte histories G1–G4 in lock-step through advance_state and Keyboard::add_byte; \
         distinct_nontrivial = distinct (decoder state, byte) pairs whose outcome was an event or an error",
        BFS_CAP
    );
    rep.set_extra("distinct_events_emitted", J::u(seen_events.len() as u64));
    let names: Vec<String> = seen_events.iter().take(8).map(|e| enc_res_str(*e, &uni)).collect();
    rep.set_extra("some_events", J::strs(names));
    rep.require("distinct events emitted", seen_events.len() as u64, 100);
    rep.require("history bytes", hist_events, 1000);
}

/// A prefix-rich stream of sequences that each agree with the reference on a fresh decoder and end between sequences.
fn verified_period<D: Dec>(set: u8) -> (Vec<u8>, usize) {
    let r = ref_for(set);
    let typist = Typist::new(set, &r);
    let agrees = |seq: &[u8]| -> bool {
        guarded(|| {
            let mut d = D::fresh();
            let mut ctx = Ctx2::default();
            seq.iter().all(|b| {
                let want = ref_step(set, &r, &mut ctx, *b);
                want.accepts(&d.advance_state(*b))
            }) && ctx == Ctx2::default()
        })
        .unwrap_or(false)
    };
    let mut period: Vec<u8> = Vec::new();
    let mut seqs = special_sequences(set);
    for (m, b) in typist.make.iter().zip(typist.brk.iter()) {
        if m.len() > 1 {
            let mut v = m.clone();
            v.extend(m); // one typematic repeat
            v.extend(b);
            seqs.push(v);
        }
    }
    // a few unprefixed keys only: they dilute the share of positions that sit inside a prefix context
    for (i, (m, b)) in typist.make.iter().zip(typist.brk.iter()).enumerate() {
        if m.len() == 1 && i % 16 == 0 {
            let mut v = m.clone();
            v.extend(b);
            seqs.push(v);
        }
    }
    let pause: Vec<u8> = if set == 2 { vec![0xE1, 0x14, 0x77, 0xE1, 0xF0, 0x14, 0xF0, 0x77] } else { vec![0xE1, 0x1D, 0x45, 0xE1, 0x9D, 0xC5] };
    for _ in 0..12 {
        seqs.push(pause.clone());
    }
    let mut left_out = 0usize;
    for sq in seqs {
        if agrees(&sq) {
            period.extend(sq);
        } else {
            left_out += 1;
        }
    }
    (period, left_out)
}

/// Counters kept in static memory behind `advance_state` (hidden.rs): found by watching, set to just below each of their
/// wrap-arounds, and the stream is decoded across the wrap in lock-step with the reference.  Must run before any other
/// thread of the monitor is started.
fn static_counter_wraps<D: Dec>(prop: &str, set: u8, rep: &mut Report) {
    use crate::hidden::*;
    let r = ref_for(set);
    let (period, _) = verified_period::<D>(set);
    if period.is_empty() {
        return;
    }
    let mut d = D::fresh();
    let mut ctx = Ctx2::default();
    let mut i = 0usize;
    let mut step = || -> Option<(String, String)> {
        let b = period[i];
        let c0 = ctx;
        let want = ref_step(set, &r, &mut ctx, b);
        let g = guarded(|| d.advance_state(b));
        let bad = match &g {
            Ok(g) => !want.accepts(g),
            Err(_) => true,
        };
        i = (i + 1) % period.len();
        if bad {
            let gs = match &g {
                Ok(g) => res_str(g),
                Err(p) => format!("PANIC({})", panic_sig(p)),
            };
            // start again between sequences with a fresh decoder
            d = D::fresh();
            ctx = Ctx2::default();
            i = 0;
            return Some((
                format!("{}|{}|static-counter-wrap|ctx={}|byte=0x{:02X}|want={}|got={}", prop, set_name(set), c0.name(), b, want.show(), gs),
                format!("{} decoder, well-formed typing: byte 0x{:02X} in context {} returned {}; the table says {}", set_name(set), b, c0.name(), gs, want.show()),
            ));
        }
        None
    };
    counter_wraps(rep, &format!("{}::advance_state", if set == 1 { "ScancodeSet1" } else { "ScancodeSet2" }), &mut step, 2 * period.len().max(400));
}

/// Long runs of well-formed typing, for whatever counts bytes / events with a 32-bit integer (in the decoder or in a
/// static).  The period is made of sequences that each agree with the reference on a fresh decoder (prefixed keys,
/// Pause, PrintScreen … – most positions are inside a prefix context), verified against the reference on its first
/// pass, then repeated: every later result must equal the first pass.  `n_dec` decoders run on `n_dec` threads with
/// `bytes_each` bytes each: quick = 16 × 2^28 (2^32 calls in the process), thorough adds one decoder with > 2^32.
fn long_cyclic_run<D: Dec>(prop: String, set: u8, n_dec: usize, bytes_each: u64) -> (u64, Vec<(String, String, J)>, String) {
    let r = ref_for(set);
    let (period, left_out) = verified_period::<D>(set);
    let in_prefix_context = {
        let mut ctx = Ctx2::default();
        let mut n = 0usize;
        for b in period.iter() {
            if ctx != Ctx2::default() {
                n += 1;
            }
            let _ = ref_step(set, &r, &mut ctx, *b);
        }
        n
    };
    let period = std::sync::Arc::new(period);
    let per = period.clone();
    let shards = par_map(n_dec, move |_t| {
        let r = ref_for(set);
        let mut pos: u64 = 0;
        let mut first_res: Vec<Res> = Vec::with_capacity(per.len());
        let outcome = guarded(|| {
            let mut d = D::fresh();
            let mut ctx = Ctx2::default();
            for b in per.iter() {
                let want = ref_step(set, &r, &mut ctx, *b);
                let g = d.advance_state(*b);
                if !want.accepts(&g) {
                    return Err(pos); // each sequence agreed on a fresh decoder, so this is history dependence
                }
                first_res.push(g);
                pos += 1;
            }
            while pos < bytes_each {
                for (i, b) in per.iter().enumerate() {
                    let g = d.advance_state(*b);
                    if g != first_res[i] {
                        return Ok(Some((i, res_str(&g), res_str(&first_res[i]))));
                    }
                }
                pos += per.len() as u64;
            }
            Ok(None)
        });
        (pos, outcome)
    });
    let mut total = 0u64;
    let mut viol = Vec::new();
    for (pos, outcome) in shards {
        total += pos;
        let rp = |i: Option<usize>| {
            let mut j = J::obj().with("kind", J::s("long-run")).with("set", J::u(set as u64)).with("bytes_before", J::u(pos)).with("period_hex", J::s(hex_bytes(&period)));
            if let Some(i) = i {
                j = j.with("position_in_period", J::u(i as u64));
            }
            j
        };
        match outcome {
            Ok(Ok(None)) => {}
            Ok(Err(at)) => viol.push((
                format!("{}|{}|long-run|first-pass|byte=0x{:02X}", prop, set_name(set), period[at as usize]),
                format!("{} decoder: in a stream of sequences that each decode as the table says on a fresh decoder, byte #{} (… {}) does not", set_name(set), at, hex_bytes(&period[(at as usize).saturating_sub(6)..=at as usize])),
                rp(Some(at as usize)),
            )),
            Ok(Ok(Some((i, got, want)))) => viol.push((
                format!("{}|{}|long-run|byte=0x{:02X}|want={}|got={}", prop, set_name(set), period[i], want, got),
                format!(
                    "{} decoder, after about {} bytes of well-formed typing on this decoder ({} decoders at work in the process): byte 0x{:02X} (… {}) returned {}; the same position of the same stream returned {} on the first pass, as the table requires",
                    set_name(set),
                    pos,
                    n_dec,
                    period[i],
                    hex_bytes(&period[i.saturating_sub(4)..=i]),
                    got,
                    want
                ),
                rp(Some(i)),
            )),
            Err(p) => viol.push((
                format!("{}|{}|long-run|panic|{}", prop, set_name(set), panic_sig(&p)),
                format!("{} decoder panicked after about {} bytes of well-formed typing on one decoder, where the table defines a result: {}", set_name(set), pos, p),
                rp(None),
            )),
        }
    }
    viol.dedup_by(|a, b| a.0 == b.0);
    let note = format!(
        "{} long run: period of {} bytes ({} in a prefix context, {} sequences left out because they disagree with the reference on their own), {} decoder(s) × {} bytes, {} bytes in all",
        set_name(set),
        period.len(),
        in_prefix_context,
        left_out,
        n_dec,
        bytes_each,
        total
    );
    (total, viol, note)
}

#[derive(Default)]
pub struct ShardOut {
    pub bytes: u64,
    pub histories: u64,
    pub events: u64,
    pub errors: u64,
    pub panics: u64,
    pub per_gen: [u64; 6],
    pub violations: Vec<(String, String, J)>,
    pub seen_events: BTreeSet<u16>,
    pub samples: Vec<String>,
}

/// One history through the bare decoder and through `Keyboard::add_byte`, against the model.
fn lockstep<D: Dec>(prop: &str, set: u8, r: &ScanRef, bytes: &[u8], which: usize, out: &mut ShardOut) {
    out.histories += 1;
    out.per_gen[which] += bytes.len() as u64;
    let res = guarded(|| {
        let mut d = D::fresh();
        let mut kb: Keyboard<DynLayout, D> = Keyboard::new(D::fresh(), dyn_layout(0, 0), HandleControl::Ignore);
        let mut ctx = Ctx2::default();
        let mut local: Vec<(usize, Ctx2, Want, String, &'static str)> = Vec::new();
        let mut distinct_bad: BTreeSet<(usize, u8)> = BTreeSet::new();
        let mut evs = Vec::new();
        let mut errors = 0u64;
        for (i, b) in bytes.iter().enumerate() {
            let c0 = ctx;
            let want = ref_step(set, r, &mut ctx, *b);
            let g1 = d.advance_state(*b);
            let g2 = kb.add_byte(*b);
            if let Ok(Some(_)) = g1 {
                evs.push(enc_res(&g1));
            }
            if g1.is_err() {
                errors += 1;
            }
            let bad1 = !want.accepts(&g1);
            let bad2 = !want.accepts(&g2);
            // only the first occurrence of a kind of mismatch is recorded in detail (a long history may repeat it thousands of times)
            let fresh_kind = !distinct_bad.contains(&(c0.index(), *b));
            if bad1 && fresh_kind {
                local.push((i, c0, want.clone(), res_str(&g1), "advance_state"));
            }
            if bad2 && (!bad1 || g1 != g2) && fresh_kind {
                local.push((i, c0, want, res_str(&g2), "Keyboard::add_byte"));
            }
            if bad1 || bad2 {
                // model and decoder may now be out of step: start a new segment with fresh objects
                d = D::fresh();
                kb = Keyboard::new(D::fresh(), dyn_layout(0, 0), HandleControl::Ignore);
                ctx = Ctx2::default();
                // keep going through a long history unless it keeps producing *new* kinds of mismatch
                distinct_bad.insert((c0.index(), *b));
                if distinct_bad.len() > 64 || local.len() > 20_000 {
                    break;
                }
            }
        }
        (local, evs, errors)
    });
    out.bytes += bytes.len() as u64;
    match res {
        Ok((local, evs, errors)) => {
            out.events += evs.len() as u64;
            out.errors += errors;
            if out.samples.len() < 2 && which >= 2 && out.histories % 97 == 1 && local.is_empty() {
                out.samples.push(format!(
                    "{} {} history of {} bytes [{} …] → {} events, {} errors, all as the reference says",
                    set_name(set),
                    GEN_NAMES[which],
                    bytes.len(),
                    hex_bytes(&bytes[..bytes.len().min(12)]),
                    evs.len(),
                    errors
                ));
            }
            for e in evs {
                out.seen_events.insert(e);
            }
            for (i, c0, want, g, via) in local {
                out.violations.push((
                    sig(prop, set, &c0, bytes[i], &want, &g),
                    format!(
                        "{} {} history, byte #{} (0x{:02X}) in context {}: reference says {}, {} returned {}",
                        set_name(set),
                        GEN_NAMES[which],
                        i,
                        bytes[i],
                        c0.name(),
                        want.show(),
                        via,
                        g
                    ),
                    replay_bytes(set, &bytes[i.saturating_sub(4095)..=i], &want, &g, via),
                ));
            }
        }
        Err(p) => {
            out.panics += 1;
            out.violations.push((
                format!("{}|{}|panic|{}", prop, set_name(set), panic_sig(&p)),
                format!("{} history [{}] panicked: {}", set_name(set), hex_bytes(bytes), p),
                replay_bytes(set, bytes, &Want::NoEvent, "PANIC", "advance_state"),
            ));
        }
    }
}

/// Short stream from a fresh bare decoder (used for the 2^24 sweep).
fn lockstep_bare<D: Dec>(prop: &str, set: u8, r: &ScanRef, bytes: &[u8], out: &mut ShardOut) {
    out.histories += 1;
    out.bytes += bytes.len() as u64;
    let mut d = D::fresh();
    let mut ctx = Ctx2::default();
    for (i, b) in bytes.iter().enumerate() {
        let c0 = ctx;
        let want = ref_step(set, r, &mut ctx, *b);
        let g = match guarded(|| d.advance_state(*b)) {
            Ok(g) => g,
            Err(p) => {
                out.panics += 1;
                let gs = format!("PANIC({})", panic_sig(&p));
                out.violations.push((
                    sig(prop, set, &c0, *b, &want, &gs),
                    format!("{} [{}{}] panicked: {}", set_name(set), if i > 48 { format!("… {} bytes … ", i - 31) } else { String::new() }, hex_bytes(&bytes[if i > 48 { i - 31 } else { 0 }..=i]), p),
                    replay_bytes(set, &bytes[..=i], &want, &gs, "advance_state"),
                ));
                return;
            }
        };
        if !want.accepts(&g) {
            let gs = res_str(&g);
            if out.violations.len() < 2000 {
                out.violations.push((
                    sig(prop, set, &c0, *b, &want, &gs),
                    format!(
                        "{} stream [{}{}] from a fresh decoder: reference says {}, decoder returned {}",
                        set_name(set),
                        if i > 48 { format!("… {} bytes … ", i - 31) } else { String::new() },
                        hex_bytes(&bytes[if i > 48 { i - 31 } else { 0 }..=i]),
                        want.show(),
                        gs
                    ),
                    replay_bytes(set, &bytes[..=i], &want, &gs, "advance_state"),
                ));
            }
            return;
        }
    }
}

/// README "Conversion Table" cross-check (reported in the evidence; not a verdict).
pub fn readme_crosscheck(rep: &mut Report, set: u8) {
    let path = std::env::var("VERIF_REPO").unwrap_or_else(|_| "/repo".into()) + "/README.md";
    let txt = match std::fs::read_to_string(&path) {
        Ok(t) => t,
        Err(_) => {
            rep.notes.push("README.md not readable – cross-check skipped".into());
            return;
        }
    };
    let r = ref_for(set);
    let mut rows = 0;
    let mut disagreements = Vec::new();
    for line in txt.lines() {
        let f: Vec<&str> = line.split('|').map(|s| s.trim()).collect();
        if f.len() < 5 || !f[2].starts_with("0x") && f[2] != "--" {
            continue;
        }
        let name = f[1];
        let Some(key) = key_by_name(name) else { continue };
        let cell = if set == 1 { f[2] } else { f[3] };
        rows += 1;
        let readme = if cell == "--" {
            None
        } else {
            let h = &cell[2..];
            if h.len() == 2 {
                Some((0usize, u8::from_str_radix(h, 16).unwrap_or(0)))
            } else {
                let ctx = if h[..2].eq_ignore_ascii_case("E0") { 1 } else { 2 };
                Some((ctx, u8::from_str_radix(&h[2..], 16).unwrap_or(0)))
            }
        };
        let ours = r.code_of(key);
        if readme != ours {
            disagreements.push(format!("{}: README {} vs reference {:?}", name, cell, ours));
        }
    }
    rep.set_extra("readme_rows_compared", J::u(rows));
    rep.set_extra("readme_disagreements_with_reference", J::strs(disagreements));
}
