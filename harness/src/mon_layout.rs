//! Layout properties decided by offline oracles over the recorded observation cube:
//! C03 (national standards), C09 (Ctrl+letter), C10 (CapsLock), C11 (five facts), C12 (ASCII
//! reachability), C15 (numpad / editing keys), C16 (character-less keys), C17 (AnyLayout).

use crate::cube::Cube;
use crate::json::J;
use crate::keys::*;
use crate::layouts::*;
use crate::model::seq_for;
use crate::mon_through::{through_decoder, Acc};
use crate::refs::*;
use crate::report::*;
use crate::scan::{ref_for, Dec};

use pc_keyboard::layouts::AnyLayout;
use pc_keyboard::{DecodedKey, EventDecoder, HandleControl, KeyCode, KeyEvent, KeyState, Keyboard, ScancodeSet1, ScancodeSet2};
use std::collections::{BTreeMap, BTreeSet};

fn replay_layout(li: usize, form: usize, key: KeyCode, mods: u16, mode: usize, want: &str, got: &str) -> J {
    J::obj()
        .with("kind", J::s("layout"))
        .with("layout", J::s(layout_name(li)))
        .with("form", J::s(FORM_NAMES[form]))
        .with("key", J::s(kname(key)))
        .with("mods", J::u(mods as u64))
        .with("mods_str", J::s(mods_str(mods)))
        .with("mode", J::s(mode_str(MODES[mode])))
        .with("expected_last", J::s(want))
        .with("observed_last", J::s(got))
}

#[allow(dead_code)]
fn report_cube_panics(prop: &str, cube: &Cube, rep: &mut Report) {
    for (li, form, ki, mode, mods, msg) in cube.panics.iter() {
        rep.panics += 1;
        rep.violate(
            format!("{}|{}|{}|key={:?}|panic|{}", prop, layout_name(*li), FORM_NAMES[*form], cube.keys[*ki], panic_sig(msg)),
            format!(
                "{} ({}) map_keycode({:?}, {}, {}) panicked: {}",
                layout_name(*li),
                FORM_NAMES[*form],
                cube.keys[*ki],
                mods_str(*mods),
                mode_str(MODES[*mode]),
                msg
            ),
            replay_layout(*li, *form, cube.keys[*ki], *mods, *mode, "a value", "PANIC"),
        );
    }
}

fn chars_str(cs: &[char]) -> String {
    cs.iter().map(|c| char_str(*c)).collect::<Vec<_>>().join("|")
}

fn cube_common(prop: &str, rep: &mut Report) -> Cube {
    let cube = Cube::build();
    rep.count("map_keycode_calls_recorded", cube.calls);
    rep.count("layout_objects", (cube.n_layouts * 3) as u64);
    if cube.n_layouts > 10 {
        rep.notes.push(format!("the tree ships layouts the harness does not know by name; they are covered by every reference-free oracle: {}", extra_layout_names().join(", ")));
    }
    if !unmonitored_layout_impls().is_empty() {
        rep.notes.push(format!(
            "NOT COVERED: the tree implements KeyboardLayout for {} – type(s) the harness cannot build a value of (parameters / fields); nothing in this evidence speaks about them",
            unmonitored_layout_impls().join(", ")
        ));
    }
    rep.count("keys_in_universe", cube.keys.len() as u64);
    // A panicking call is recorded in the cube as the value PANIC and is judged like any other value by
    // the property's own oracle, i.e. only where the property constrains that cell (attribution rule);
    // C08 is the property that reports every panic.
    rep.count("cells_that_panicked", cube.panics.len() as u64);
    let _ = prop;
    cube
}

/// observed (bare form): the ASCII letter a key types unmodified, if any
fn ascii_letter(cube: &Cube, li: usize, ki: usize) -> Option<char> {
    enc_char(cube.get(li, 0, ki, 1, B_NUMLOCK)).filter(|c| c.is_ascii_lowercase())
}
/// observed (bare form): lower/upper pair ⇒ letter key in the sense of C10
fn is_letter_key(cube: &Cube, li: usize, ki: usize) -> bool {
    let base = enc_char(cube.get(li, 0, ki, 1, B_NUMLOCK));
    let shifted = enc_char(cube.get(li, 0, ki, 1, B_NUMLOCK | B_LSHIFT));
    match (base, shifted) {
        (Some(b), Some(s)) => {
            let mut up = b.to_uppercase();
            let u = up.next();
            b.is_lowercase() && up.next().is_none() && u == Some(s) && s != b
        }
        _ => false,
    }
}
const MAIN_BLOCK: [KeyCode; 20] = [
    KeyCode::Q, KeyCode::A, KeyCode::Z, KeyCode::M, KeyCode::Y, KeyCode::E, KeyCode::Key2, KeyCode::Key3, KeyCode::Key7, KeyCode::Key0, KeyCode::Oem8, KeyCode::OemMinus, KeyCode::OemPlus,
    KeyCode::Oem1, KeyCode::Oem3, KeyCode::Oem4, KeyCode::Oem6, KeyCode::Oem5, KeyCode::Oem7, KeyCode::OemComma,
];
const NUMPAD_AND_EDIT: [KeyCode; 23] = [
    KeyCode::Numpad0, KeyCode::Numpad1, KeyCode::Numpad2, KeyCode::Numpad3, KeyCode::Numpad4, KeyCode::Numpad5, KeyCode::Numpad6, KeyCode::Numpad7, KeyCode::Numpad8, KeyCode::Numpad9,
    KeyCode::NumpadPeriod, KeyCode::NumpadDivide, KeyCode::NumpadMultiply, KeyCode::NumpadSubtract, KeyCode::NumpadAdd, KeyCode::NumpadEnter, KeyCode::Return,
    KeyCode::Escape, KeyCode::Backspace, KeyCode::Tab, KeyCode::Delete, KeyCode::Spacebar, KeyCode::A,
];

// =================================================================== C03

/// which (mods, mode) pairs select a level, per the property's quantifier
fn selects(level: Level, m: u16, mode: usize) -> bool {
    selects_key(level, m, mode, true)
}

/// `letter_key`: the key types one of a..z unmodified on this layout – only for such a key is Ctrl "being mapped" when it
/// is held in mapping mode (C09: on any other key Ctrl handling changes nothing, so the level's character is still due)
fn selects_key(level: Level, m: u16, mode: usize, letter_key: bool) -> bool {
    let f = facts(m);
    if f.caps {
        return false;
    }
    if mode == 0 && f.ctrl && letter_key {
        return false; // Ctrl is being mapped
    }
    match level {
        Level::Base => !f.shift && !f.altgr,
        Level::Shift => f.shift && !f.altgr,
        Level::AltGr => f.altgr && !f.shift,
    }
}

pub fn run_c03(rep: &mut Report) {
    let cube = cube_common("C03", rep);
    let mut cells_checked = 0u64;
    let mut distinct_cells: BTreeSet<(usize, usize, usize)> = BTreeSet::new();
    let mut altgr_unconstrained: BTreeSet<String> = BTreeSet::new();
    let mut sel_counts = [0u64; 3];
    for li in 0..10 {
        let lref = LayoutRef::load(li);
        // every AltGr character the standard has on this layout (to recognise one on the wrong key)
        let altgr_all: BTreeSet<char> = cube.keys.iter().flat_map(|k| lref.accepted(Level::AltGr, *k).to_vec()).collect();
        for (ki, key) in cube.keys.iter().enumerate() {
            for level in [Level::Base, Level::Shift, Level::AltGr] {
                let acc = lref.accepted(level, *key);
                let constrained_key = !lref.accepted(Level::Base, *key).is_empty() || !lref.accepted(Level::Shift, *key).is_empty();
                if level != Level::AltGr && acc.is_empty() {
                    continue;
                }
                if level == Level::AltGr && !constrained_key && acc.is_empty() {
                    continue;
                }
                // does this key show a distinct AltGr-level output in any state that selects the AltGr level?
                let mut has_altgr = [false; 3];
                if level == Level::AltGr {
                    for form in 0..3 {
                        for mode in 0..2 {
                            for m in 0..512u16 {
                                if selects_key(Level::AltGr, m, mode, ascii_letter(&cube, li, ki).is_some()) && cube.get(li, form, ki, mode, m) != cube.get(li, form, ki, mode, m & !(B_RALT | B_LALT)) {
                                    has_altgr[form] = true;
                                }
                            }
                        }
                    }
                }
                for form in 0..3 {
                    for mode in 0..2 {
                        for m in 0..512u16 {
                            if !selects_key(level, m, mode, ascii_letter(&cube, li, ki).is_some()) {
                                continue;
                            }
                            let got = cube.get(li, form, ki, mode, m);
                            rep.evaluations += 1;
                            cells_checked += 1;
                            let gc = enc_char(got);
                            let ok = match level {
                                Level::Base | Level::Shift => gc.map(|c| acc.contains(&c)).unwrap_or(false),
                                Level::AltGr => {
                                    // only a *distinct* AltGr-level output is constrained – but a key that has one in
                                    // some AltGr-selecting state must have it in every such state
                                    let base_m = m & !(B_RALT | B_LALT);
                                    let base_out = cube.get(li, form, ki, mode, base_m);
                                    if got == base_out {
                                        !(has_altgr[form] && !acc.is_empty())
                                    } else if !acc.is_empty() {
                                        gc.map(|c| acc.contains(&c)).unwrap_or(false)
                                    } else {
                                        // no AltGr character transcribed for this key: only flag another key's AltGr character
                                        match gc {
                                            Some(c) if altgr_all.contains(&c) => false,
                                            _ => {
                                                altgr_unconstrained.insert(format!("{} {:?} → {}", layout_name(li), key, cube.show(got)));
                                                true
                                            }
                                        }
                                    }
                                }
                            };
                            if ok {
                                distinct_cells.insert((li, ki, level as usize));
                            } else {
                                let want = if acc.is_empty() { "no AltGr character of another key".to_string() } else { chars_str(acc) };
                                rep.violate(
                                    format!("C03|{}|key={:?}|level={}|want={}|got={}", layout_name(li), key, LEVEL_NAMES[level as usize], want, cube.show(got)),
                                    format!(
                                        "{} ({}): key {:?} at the {} level (modifiers {}, Ctrl mode {}) types {}; the layout standard has {}",
                                        layout_name(li),
                                        FORM_NAMES[form],
                                        key,
                                        LEVEL_NAMES[level as usize],
                                        mods_str(m),
                                        mode_str(MODES[mode]),
                                        cube.show(got),
                                        want
                                    ),
                                    replay_layout(li, form, *key, m, mode, &want, &cube.show(got)),
                                );
                            }
                        }
                    }
                }
            }
        }
        rep.count(&format!("reference_cells_{}", layout_name(li)), lref.n_cells as u64);
    }
    for level in [Level::Base, Level::Shift, Level::AltGr] {
        for mode in 0..2 {
            for m in 0..512u16 {
                if selects(level, m, mode) {
                    sel_counts[level as usize] += 1;
                }
            }
        }
    }
    rep.count("cell_x_modifier_checks", cells_checked);
    rep.count("modifier_mode_pairs_selecting_base", sel_counts[0]);
    rep.count("modifier_mode_pairs_selecting_shift", sel_counts[1]);
    rep.count("modifier_mode_pairs_selecting_altgr", sel_counts[2]);
    rep.set_extra("altgr_outputs_not_constrained_by_the_reference", J::strs(altgr_unconstrained.iter().take(40).cloned()));

    // ---- the same reference applied to what is typed through Keyboard::process_keyevent in hostile histories
    {
        let refs: Vec<LayoutRef> = (0..10).map(LayoutRef::load).collect();
        let cube_ref = &cube;
        let acc = |li: usize, ki: usize, m: u16, mode: usize| -> Acc {
            if li >= 10 {
                return Acc::Any; // no transcribed standard for a layout the harness does not know
            }
            let key = cube_ref.keys[ki];
            let letter = ascii_letter(cube_ref, li, ki).is_some();
            for level in [Level::Base, Level::Shift] {
                if selects_key(level, m, mode, letter) {
                    let a = refs[li].accepted(level, key);
                    return if a.is_empty() { Acc::Any } else { Acc::OneOf(a.iter().map(|c| *c as u32).collect()) };
                }
            }
            if selects_key(Level::AltGr, m, mode, letter) {
                let a = refs[li].accepted(Level::AltGr, key);
                if a.is_empty() {
                    return Acc::Any;
                }
                // the AltGr character, or (for a layout that does not implement it at all) the key's base output
                let mut v: Vec<u32> = a.iter().map(|c| *c as u32).collect();
                let has = (0..512u16).any(|x| selects(Level::AltGr, x, 1) && cube_ref.get(li, 0, ki, 1, x) != cube_ref.get(li, 0, ki, 1, x & !(B_RALT | B_LALT)));
                if !has {
                    v.push(cube_ref.get(li, 0, ki, mode, m & !(B_RALT | B_LALT)));
                }
                return Acc::OneOf(v);
            }
            Acc::Any
        };
        through_decoder("C03", rep, &cube, &MAIN_BLOCK, &acc);
    }

    // ---- end to end: type every constrained base/shift/AltGr cell through Keyboard from scancodes of both sets
    e2e_c03::<ScancodeSet2>(rep);
    e2e_c03::<ScancodeSet1>(rep);

    rep.distinct_nontrivial = distinct_cells.len() as u64;
    rep.exhaustive = Some(true);
    rep.rule = "every constrained (layout, key, level) cell of refs/layouts/*.tsv × every (modifier set, Ctrl mode) pair that selects that level (CapsLock off, Ctrl not being mapped, Shift+AltGr excluded) × 3 layout forms, read from the recorded cube of real map_keycode calls; \
                the same reference applied to every press typed through Keyboard::process_keyevent in hostile histories; plus every cell typed end-to-end through Keyboard from reference scancodes of both sets; distinct_nontrivial = distinct (layout, key, level) cells observed to hold"
        .into();
    rep.assumptions.push("refs/layouts/*.tsv transcribe the national / ergonomic standards (DESIGN.md A.3); cells where deployed standards differ accept each attested variant; keys absent from the physical keyboard are unconstrained".into());
    rep.assumptions.push("an AltGr output is constrained only where it differs from the key's base output; on keys for which no AltGr character was transcribed only another key's AltGr character is flagged".into());
    for (li, key, m) in [(1usize, KeyCode::Key3, B_LSHIFT), (3, KeyCode::Q, 0), (2, KeyCode::Q, B_RALT), (9, KeyCode::Key1, 0), (6, KeyCode::Oem13, 0)] {
        let ki = cube.key_index(key).unwrap();
        rep.sample_str(format!("{} {:?} {} → {}", layout_name(li), key, mods_str(m), cube.show(cube.get(li, 0, ki, 1, m))));
    }
}

/// press the modifier keys, then the key, through a real Keyboard fed with reference scancodes
fn e2e_c03<D: Dec>(rep: &mut Report) {
    let set = D::SET;
    let r = ref_for(set);
    let combos: [(Level, &[KeyCode]); 5] = [
        (Level::Base, &[]),
        (Level::Shift, &[KeyCode::LShift]),
        (Level::Shift, &[KeyCode::RShift]),
        (Level::AltGr, &[KeyCode::RAltGr]),
        (Level::AltGr, &[KeyCode::LControl, KeyCode::LAlt]),
    ];
    let (mut typed, mut blocked) = (0u64, 0u64);
    for li in 0..10 {
        let lref = LayoutRef::load(li);
        for key in NAMED_KEYS.iter() {
            for (level, mods) in combos.iter() {
                let acc = lref.accepted(*level, *key);
                if acc.is_empty() {
                    continue;
                }
                let res = guarded(|| {
                    with_layout!(li, l => {
                        let mut kb = Keyboard::new(D::fresh(), l, HandleControl::Ignore);
                        let mut last = None;
                        let mut blocked = false;
                        let mut all: Vec<KeyCode> = mods.to_vec();
                        all.push(*key);
                        for k in all {
                            let Some(seq) = seq_for(&r, set, k, true) else { blocked = true; break };
                            let mut ev = None;
                            for b in seq {
                                match kb.add_byte(b) {
                                    Ok(Some(e)) => ev = Some(e),
                                    Ok(None) => {}
                                    Err(_) => blocked = true,
                                }
                            }
                            match ev {
                                Some(e) if e.code == k && e.state == KeyState::Down => last = kb.process_keyevent(e),
                                _ => { blocked = true; }
                            }
                            if blocked { break; }
                        }
                        (last, blocked)
                    })
                });
                rep.evaluations += 1;
                match res {
                    Ok((_, true)) => blocked += 1,
                    Ok((got, false)) => {
                        typed += 1;
                        let ok = match (level, got) {
                            (Level::AltGr, Some(DecodedKey::Unicode(c))) => {
                                // distinct-from-base rule as in the cube check
                                acc.contains(&c) || lref.accepted(Level::Base, *key).contains(&c)
                            }
                            (_, Some(DecodedKey::Unicode(c))) => acc.contains(&c),
                            _ => false,
                        };
                        if !ok {
                            rep.violate(
                                format!("C03|{}|key={:?}|level={}|want={}|got={}", layout_name(li), key, LEVEL_NAMES[*level as usize], chars_str(acc), odk_str(&got)),
                                format!(
                                    "{}: typing {:?}+{:?} through Keyboard<_, {}> from scancodes gives {}; the layout standard has {}",
                                    layout_name(li),
                                    mods,
                                    key,
                                    crate::scan::set_name(set),
                                    odk_str(&got),
                                    chars_str(acc)
                                ),
                                J::obj().with("kind", J::s("e2e-type")).with("layout", J::s(layout_name(li))).with("set", J::u(set as u64)).with("key", J::s(kname(*key))),
                            );
                        }
                    }
                    Err(p) => {
                        rep.panics += 1;
                        rep.violate(format!("C03|e2e-panic|{}", panic_sig(&p)), format!("end-to-end typing panicked: {}", p), J::Null);
                    }
                }
            }
        }
    }
    rep.count(&format!("e2e_cells_typed_{}", crate::scan::set_name(set)), typed);
    rep.count(&format!("e2e_blocked_by_lower_layer_{}", crate::scan::set_name(set)), blocked);
}

// =================================================================== C09

pub fn run_c09(rep: &mut Report) {
    let cube = cube_common("C09", rep);
    let mut letter_keys = 0u64;
    let mut distinct: BTreeSet<(usize, usize)> = BTreeSet::new();
    for li in 0..cube.n_layouts {
        for form in 0..1 {
            for (ki, key) in cube.keys.iter().enumerate() {
                // what the layout types on this key with no modifier (NumLock on, as after power-up)
                let base = cube.get(li, form, ki, 1, B_NUMLOCK);
                let letter = enc_char(base).filter(|c| c.is_ascii_lowercase());
                if letter.is_some() && form == 0 {
                    letter_keys += 1;
                }
                for m in 0..512u16 {
                    let f = facts(m);
                    let map = cube.get(li, form, ki, 0, m);
                    let ign = cube.get(li, form, ki, 1, m);
                    rep.evaluations += 1;
                    let alt = m & (B_LALT | B_RALT) != 0;
                    if let (Some(x), true, false) = (letter, f.ctrl, alt) {
                        // Ctrl+letter, mapping enabled: the control character of the layout's letter
                        let want = (x as u32) - ('a' as u32) + 1;
                        if map != want {
                            rep.violate(
                                format!("C09|{}|ctrl-letter|key={:?}|letter={}|want=U+{:04X}|got={}", layout_name(li), key, x, want, cube.show(map)),
                                format!(
                                    "{} ({}): key {:?} types '{}', so Ctrl+it ({}, mapping on) must give U+{:04X}; got {}",
                                    layout_name(li),
                                    FORM_NAMES[form],
                                    key,
                                    x,
                                    mods_str(m),
                                    want,
                                    cube.show(map)
                                ),
                                replay_layout(li, form, *key, m, 0, &format!("U+{:04X}", want), &cube.show(map)),
                            );
                        } else {
                            distinct.insert((li, ki));
                        }
                        // (iii) mapping disabled: Ctrl changes nothing
                    } else if letter.is_none() || !f.ctrl {
                        // (i) Ctrl not held, or (ii) not a letter key: the mode must not matter
                        if map != ign {
                            let rule = if !f.ctrl { "ctrl-not-held" } else { "non-letter-key" };
                            rep.violate(
                                format!("C09|{}|mode-leak|key={:?}|rule={}|map={}|ignore={}", layout_name(li), key, rule, cube.show(map), cube.show(ign)),
                                format!(
                                    "{} ({}): key {:?} with {} gives {} with Ctrl mapping on but {} with it off ({})",
                                    layout_name(li),
                                    FORM_NAMES[form],
                                    key,
                                    mods_str(m),
                                    cube.show(map),
                                    cube.show(ign),
                                    rule
                                ),
                                replay_layout(li, form, *key, m, 0, &cube.show(ign), &cube.show(map)),
                            );
                        }
                    }
                    if f.ctrl && !(m & B_LALT != 0 && m & B_RALT == 0) {
                        // mapping disabled: holding Ctrl changes nothing (AltGr fact unchanged by construction)
                        let no_ctrl = cube.get(li, form, ki, 1, m & !(B_LCTRL | B_RCTRL));
                        if ign != no_ctrl {
                            rep.violate(
                                format!("C09|{}|ignore-mode-ctrl-effect|key={:?}|with={}|without={}", layout_name(li), key, cube.show(ign), cube.show(no_ctrl)),
                                format!(
                                    "{} ({}): with Ctrl mapping disabled, key {:?} gives {} with {} but {} without the Ctrl keys",
                                    layout_name(li),
                                    FORM_NAMES[form],
                                    key,
                                    cube.show(ign),
                                    mods_str(m),
                                    cube.show(no_ctrl)
                                ),
                                replay_layout(li, form, *key, m, 1, &cube.show(no_ctrl), &cube.show(ign)),
                            );
                        }
                    }
                }
            }
        }
    }
    {
        let c = &cube;
        let acc = |li: usize, ki: usize, m: u16, mode: usize| -> Acc {
            let f = facts(m);
            let alt = m & (B_LALT | B_RALT) != 0;
            let letter = ascii_letter(c, li, ki);
            if mode == 0 {
                match letter {
                    Some(x) if f.ctrl && !alt => Acc::OneOf(vec![(x as u32) - ('a' as u32) + 1]),
                    Some(_) if f.ctrl => Acc::Any,
                    _ => Acc::OneOf(vec![c.get(li, 0, ki, 1, m)]),
                }
            } else if f.ctrl && !(m & B_LALT != 0 && m & B_RALT == 0) {
                Acc::OneOf(vec![c.get(li, 0, ki, 1, m & !(B_LCTRL | B_RCTRL))])
            } else {
                Acc::Any
            }
        };
        through_decoder("C09", rep, &cube, &MAIN_BLOCK, &acc);
    }
    rep.count("letter_keys_found_across_layouts", letter_keys);
    rep.require("letter keys", letter_keys, 250);
    rep.distinct_nontrivial = distinct.len() as u64;
    rep.exhaustive = Some(true);
    rep.rule = "reference-free: a key is a letter key of a layout iff its observed unmodified output is a..z; for every modifier set with a Ctrl key and no Alt, mapping on, the output must be that letter's control character; \
                otherwise (Ctrl not held / non-letter key) both modes must agree, and with mapping off the Ctrl keys must change nothing; the 10 layouts × keys × 512 × 2 from the recorded cube, and the same predicate on every press typed through Keyboard::process_keyevent in hostile histories (keys re-pressed while held, modifier and mode changes in between); \
                distinct_nontrivial = distinct (layout, letter key) pairs whose Ctrl mapping was observed correct"
        .into();
    for (li, key) in [(0usize, KeyCode::K), (2, KeyCode::Y), (7, KeyCode::R), (8, KeyCode::Q), (3, KeyCode::Q)] {
        let ki = cube.key_index(key).unwrap();
        rep.sample_str(format!(
            "{} key {:?}: alone → {}, {{lctrl}} Map → {}, {{lctrl}} Ignore → {}",
            layout_name(li),
            key,
            cube.show(cube.get(li, 0, ki, 1, B_NUMLOCK)),
            cube.show(cube.get(li, 0, ki, 0, B_NUMLOCK | B_LCTRL)),
            cube.show(cube.get(li, 0, ki, 1, B_NUMLOCK | B_LCTRL))
        ));
    }
}

// =================================================================== C10

pub fn run_c10(rep: &mut Report) {
    let cube = cube_common("C10", rep);
    let mut letter_keys = 0u64;
    let mut national = BTreeSet::new();
    let mut distinct: BTreeSet<(usize, usize)> = BTreeSet::new();
    for li in 0..cube.n_layouts {
        for form in 0..1 {
            for (ki, key) in cube.keys.iter().enumerate() {
                let base = enc_char(cube.get(li, form, ki, 1, B_NUMLOCK));
                let shifted = enc_char(cube.get(li, form, ki, 1, B_NUMLOCK | B_LSHIFT));
                let is_letter = match (base, shifted) {
                    (Some(b), Some(s)) => {
                        let mut up = b.to_uppercase();
                        let u = up.next();
                        b.is_lowercase() && up.next().is_none() && u == Some(s) && s != b
                    }
                    _ => false,
                };
                if is_letter && form == 0 {
                    letter_keys += 1;
                    if !base.unwrap().is_ascii() {
                        national.insert(format!("{}:{}", layout_name(li), base.unwrap()));
                    }
                }
                for mode in 0..2 {
                    for m in 0..512u16 {
                        if m & B_CAPSLOCK == 0 {
                            continue;
                        }
                        rep.evaluations += 1;
                        let with_caps = cube.get(li, form, ki, mode, m);
                        if is_letter {
                            // CapsLock ≡ inversion of Shift
                            let shift = m & (B_LSHIFT | B_RSHIFT) != 0;
                            let twin = if shift { m & !(B_CAPSLOCK | B_LSHIFT | B_RSHIFT) } else { (m & !B_CAPSLOCK) | B_LSHIFT };
                            let want = cube.get(li, form, ki, mode, twin);
                            if with_caps != want {
                                rep.violate(
                                    format!("C10|{}|letter-key|key={:?}|letter={}|caps-not-inverting-shift|shift={}", layout_name(li), key, base.unwrap(), shift),
                                    format!(
                                        "{} ({}): key {:?} types the letter '{}'; with {} it gives {} but CapsLock must act as inverted Shift, i.e. like {} which gives {}",
                                        layout_name(li),
                                        FORM_NAMES[form],
                                        key,
                                        base.unwrap(),
                                        mods_str(m),
                                        cube.show(with_caps),
                                        mods_str(twin),
                                        cube.show(want)
                                    ),
                                    replay_layout(li, form, *key, m, mode, &cube.show(want), &cube.show(with_caps)),
                                );
                            } else {
                                distinct.insert((li, ki));
                            }
                        } else {
                            let without = cube.get(li, form, ki, mode, m & !B_CAPSLOCK);
                            if with_caps != without {
                                rep.violate(
                                    format!("C10|{}|non-letter-key|key={:?}|caps-changes-output|off={}|on={}", layout_name(li), key, cube.show(without), cube.show(with_caps)),
                                    format!(
                                        "{} ({}): key {:?} is not a letter key (types {} / shifted {}), yet CapsLock changes its output: {} → {} vs {} → {}",
                                        layout_name(li),
                                        FORM_NAMES[form],
                                        key,
                                        base.map(char_str).unwrap_or_else(|| "raw".into()),
                                        shifted.map(char_str).unwrap_or_else(|| "raw".into()),
                                        mods_str(m & !B_CAPSLOCK),
                                        cube.show(without),
                                        mods_str(m),
                                        cube.show(with_caps)
                                    ),
                                    replay_layout(li, form, *key, m, mode, &cube.show(without), &cube.show(with_caps)),
                                );
                            } else if form == 0 && mode == 1 {
                                distinct.insert((li, ki));
                            }
                        }
                    }
                }
            }
        }
    }
    {
        let c = &cube;
        let acc = |li: usize, ki: usize, m: u16, mode: usize| -> Acc {
            let shift = m & (B_LSHIFT | B_RSHIFT) != 0;
            let caps = m & B_CAPSLOCK != 0;
            if is_letter_key(c, li, ki) {
                // CapsLock ≡ inverted Shift, read in both directions
                let twin = if caps {
                    if shift { m & !(B_CAPSLOCK | B_LSHIFT | B_RSHIFT) } else { (m & !B_CAPSLOCK) | B_LSHIFT }
                } else if shift {
                    (m & !(B_LSHIFT | B_RSHIFT)) | B_CAPSLOCK
                } else {
                    m | B_CAPSLOCK | B_LSHIFT
                };
                Acc::OneOf(vec![c.get(li, 0, ki, mode, twin)])
            } else {
                Acc::OneOf(vec![c.get(li, 0, ki, mode, m ^ B_CAPSLOCK)])
            }
        };
        through_decoder("C10", rep, &cube, &MAIN_BLOCK, &acc);
    }
    rep.count("letter_keys_found_across_layouts", letter_keys);
    rep.set_extra("national_letter_keys", J::strs(national.iter().cloned()));
    rep.require("letter keys", letter_keys, 250);
    rep.distinct_nontrivial = distinct.len() as u64;
    rep.exhaustive = Some(true);
    rep.rule = "reference-free: letter key iff observed base output is a lowercase letter (Unicode) whose single-character uppercase is the observed shifted output; on letter keys every CapsLock-on modifier set must give what its Shift-inverted CapsLock-off twin gives, on all other keys what the same set without CapsLock gives; \
                the 10 layouts × keys × 256 CapsLock pairs × 2 modes from the recorded cube, and the same predicate on every press typed through Keyboard::process_keyevent in hostile histories; distinct_nontrivial = distinct (layout, key) pairs observed to obey their rule in every pair"
        .into();
    for (li, key) in [(2usize, KeyCode::Oem1), (2, KeyCode::Oem6), (4, KeyCode::Oem4), (3, KeyCode::M), (7, KeyCode::P)] {
        let ki = cube.key_index(key).unwrap();
        rep.sample_str(format!(
            "{} key {:?}: {{}} → {}, {{lshift}} → {}, {{capslock}} → {}, {{lshift+capslock}} → {}",
            layout_name(li),
            key,
            cube.show(cube.get(li, 0, ki, 1, 0)),
            cube.show(cube.get(li, 0, ki, 1, B_LSHIFT)),
            cube.show(cube.get(li, 0, ki, 1, B_CAPSLOCK)),
            cube.show(cube.get(li, 0, ki, 1, B_CAPSLOCK | B_LSHIFT))
        ));
    }
}

// =================================================================== C11

pub fn run_c11(rep: &mut Report) {
    let cube = cube_common("C11", rep);
    let mut classes_seen: BTreeSet<(bool, bool, bool, bool, bool)> = BTreeSet::new();
    let mut distinct = 0u64;
    for li in 0..cube.n_layouts {
        for form in 0..1 {
            for (ki, key) in cube.keys.iter().enumerate() {
                let numpad = is_numpad_numlock_key(*key);
                for mode in 0..2 {
                    let mut rep_of: BTreeMap<(bool, bool, bool, bool, bool), (u16, u32)> = BTreeMap::new();
                    let mut ok = true;
                    for m in 0..512u16 {
                        let f = facts(m);
                        let class = (f.shift, f.ctrl, f.altgr, f.caps, if numpad { f.numlock } else { false });
                        classes_seen.insert((f.shift, f.ctrl, f.altgr, f.caps, f.numlock));
                        let got = cube.get(li, form, ki, mode, m);
                        rep.evaluations += 1;
                        match rep_of.get(&class) {
                            None => {
                                rep_of.insert(class, (m, got));
                            }
                            Some((m0, g0)) => {
                                if *g0 != got {
                                    ok = false;
                                    let diff = m0 ^ m;
                                    let names: Vec<&str> = (0..9).filter(|i| diff & (1 << i) != 0).map(|i| MOD_NAMES[i]).collect();
                                    rep.violate(
                                        format!("C11|{}|key={:?}|fact-leak|flags={}", layout_name(li), key, names.join("+")),
                                        format!(
                                            "{} ({}), Ctrl mode {}: key {:?} gives {} with {} but {} with {}, although both have the same Shift/Ctrl/AltGr/CapsLock{} facts",
                                            layout_name(li),
                                            FORM_NAMES[form],
                                            mode_str(MODES[mode]),
                                            key,
                                            cube.show(*g0),
                                            mods_str(*m0),
                                            cube.show(got),
                                            mods_str(m),
                                            if numpad { "/NumLock" } else { "" }
                                        ),
                                        replay_layout(li, form, *key, m, mode, &cube.show(*g0), &cube.show(got)),
                                    );
                                }
                            }
                        }
                    }
                    if ok {
                        distinct += 1;
                    }
                }
            }
        }
    }
    // ---- what is typed through the decoder must be what the five facts determine
    {
        let c = &cube;
        let acc = |li: usize, ki: usize, m: u16, mode: usize| -> Acc {
            let f = facts(m);
            let numpad = is_numpad_numlock_key(c.keys[ki]);
            // canonical representative of the class of m
            let rep_m = (if f.shift { B_LSHIFT } else { 0 })
                | (if f.ctrl { B_LCTRL } else { 0 })
                | (if f.altgr { B_RALT } else { 0 })
                | (if f.caps { B_CAPSLOCK } else { 0 })
                | (if numpad && f.numlock { B_NUMLOCK } else { 0 });
            Acc::OneOf(vec![c.get(li, 0, ki, mode, rep_m)])
        };
        through_decoder("C11", rep, &cube, &MAIN_BLOCK, &acc);
    }
    // ---- the five public predicates on all 512 values
    let mut pred_checks = 0u64;
    for m in 0..512u16 {
        let md = mods_from_bits(m);
        let f = facts(m);
        let shift = m & (B_LSHIFT | B_RSHIFT) != 0;
        let checks: [(&str, Result<bool, String>, bool); 5] = [
            ("is_shifted", guarded(|| md.is_shifted()), shift),
            ("is_ctrl", guarded(|| md.is_ctrl()), f.ctrl),
            ("is_alt", guarded(|| md.is_alt()), m & (B_LALT | B_RALT) != 0),
            ("is_altgr", guarded(|| md.is_altgr()), f.altgr),
            ("is_caps", guarded(|| md.is_caps()), shift ^ f.caps),
        ];
        for (name, got, want) in checks {
            pred_checks += 1;
            rep.evaluations += 1;
            if got != Ok(want) {
                rep.violate(
                    format!("C11|predicate|{}|want={}|got={:?}", name, want, got),
                    format!("Modifiers::{}() on {} returned {:?}, the defining formula gives {}", name, mods_str(m), got, want),
                    J::obj().with("kind", J::s("predicate")).with("name", J::s(name)).with("mods", J::u(m as u64)).with("expected_last", J::s(format!("{}", want))),
                );
            }
        }
    }
    rep.count("predicate_evaluations", pred_checks);
    rep.count("abstract_classes_seen", classes_seen.len() as u64);
    rep.require("abstract classes", classes_seen.len() as u64, 32);
    rep.distinct_nontrivial = distinct;
    rep.exhaustive = Some(true);
    rep.rule = "reference-free: the 512 modifier sets are partitioned by (Shift, Ctrl, AltGr, CapsLock, NumLock – NumLock only for the 11 numpad digit/decimal keys); the recorded output must be constant on every class, per key, layout and mode (10 layouts; wrappers are C17's), and every press typed through Keyboard::process_keyevent in hostile histories must type what the class determines; \
                the five Modifiers predicates on all 512 values against their defining formulas; distinct_nontrivial = (layout object, key, mode) rows found constant on all their classes"
        .into();
    let ki = cube.key_index(KeyCode::A).unwrap();
    rep.sample_str(format!(
        "Us104Key A: {{lshift}} → {}, {{rshift}} → {}, {{lshift+rshift}} → {}, {{lalt}} → {}, {{rctrl2}} → {}",
        cube.show(cube.get(0, 0, ki, 1, B_LSHIFT)),
        cube.show(cube.get(0, 0, ki, 1, B_RSHIFT)),
        cube.show(cube.get(0, 0, ki, 1, B_LSHIFT | B_RSHIFT)),
        cube.show(cube.get(0, 0, ki, 1, B_LALT)),
        cube.show(cube.get(0, 0, ki, 1, B_RCTRL2))
    ));
    let kq = cube.key_index(KeyCode::Q).unwrap();
    rep.sample_str(format!(
        "De105Key Q: {{ralt}} → {}, {{lalt+lctrl}} (Ignore) → {}, {{lalt}} → {}",
        cube.show(cube.get(2, 0, kq, 1, B_RALT)),
        cube.show(cube.get(2, 0, kq, 1, B_LALT | B_LCTRL)),
        cube.show(cube.get(2, 0, kq, 1, B_LALT))
    ));
}

// =================================================================== C12

pub fn run_c12(rep: &mut Report) {
    let cube = cube_common("C12", rep);
    let mut witnesses = 0u64;
    for li in 0..cube.n_layouts {
        for form in 0..1 {
            let mut found: BTreeMap<char, (KeyCode, u16)> = BTreeMap::new();
            for (ki, key) in cube.keys.iter().enumerate() {
                for m in [B_NUMLOCK, B_NUMLOCK | B_LSHIFT, B_NUMLOCK | B_RALT] {
                    for mode in 0..2 {
                        rep.evaluations += 1;
                        if let Some(c) = enc_char(cube.get(li, form, ki, mode, m)) {
                            // a character counts only if both modes produce it (it must not depend on the Ctrl mode)
                            if cube.get(li, form, ki, 1 - mode, m) == c as u32 {
                                found.entry(c).or_insert((*key, m));
                            }
                        }
                    }
                }
            }
            let mut missing = Vec::new();
            for c in 0x20u8..=0x7E {
                if !found.contains_key(&(c as char)) {
                    missing.push(c as char);
                } else if form == 0 {
                    witnesses += 1;
                }
            }
            for c in missing {
                rep.violate(
                    format!("C12|{}|missing=U+{:04X}", layout_name(li), c as u32),
                    format!(
                        "{} ({}): printable ASCII character '{}' (U+{:04X}) is not produced by any key at the unshifted, shifted or AltGr level",
                        layout_name(li),
                        FORM_NAMES[form],
                        c,
                        c as u32
                    ),
                    J::obj().with("kind", J::s("ascii-search")).with("layout", J::s(layout_name(li))).with("form", J::s(FORM_NAMES[form])).with("char", J::u(c as u64)),
                );
            }
            if form == 0 {
                let w: Vec<String> = ['#', '@', '\\', '{', '~', '|']
                    .iter()
                    .filter_map(|c| found.get(c).map(|(k, m)| format!("'{}'={:?}{}", c, k, mods_str(*m & !B_NUMLOCK))))
                    .collect();
                rep.sample_str(format!("{}: {}", layout_name(li), w.join("  ")));
            }
        }
    }
    // ---- the same through the public API (EventDecoder<AnyLayout>): a character that layout B types with exactly one key and
    //      level must still be typed by that key after the keyboard was switched to B from layout A – also when that very key
    //      and level was the last thing used on A, and whatever the number n of change_layout calls made on the way
    {
        let level_keys: [(u16, Option<KeyCode>); 3] = [(0, None), (B_LSHIFT, Some(KeyCode::LShift)), (B_RALT, Some(KeyCode::RAltGr))];
        let plain: Vec<(usize, KeyCode)> = cube.keys.iter().copied().enumerate().filter(|(_, k)| !MOD_KEYS.contains(k)).collect();
        let mut probes = 0u64;
        let special_b = (rep.seed as usize) % 10;
        for b in 0..10usize {
            // characters of B with a single witness (key, level)
            let mut wit: BTreeMap<char, Vec<(KeyCode, usize)>> = BTreeMap::new();
            for (ki, key) in plain.iter() {
                for (lv, (m, _)) in level_keys.iter().enumerate() {
                    if let Some(c) = enc_char(cube.get(b, 0, *ki, 1, B_NUMLOCK | m)) {
                        if (' '..='~').contains(&c) && cube.get(b, 0, *ki, 0, B_NUMLOCK | m) == c as u32 {
                            wit.entry(c).or_default().push((*key, lv));
                        }
                    }
                }
            }
            let single: Vec<(char, KeyCode, usize)> = wit.iter().filter(|(_, v)| v.len() == 1).map(|(c, v)| (*c, v[0].0, v[0].1)).collect();
            for a in 0..10usize {
                let ns: &[usize] = if a == 0 && b == special_b { &[1, 2, 255, 256, 257, 512, 65_536] } else { &[1, 256] };
                for n in ns {
                    for (c, key, lv) in single.iter() {
                        let r = guarded(|| {
                            let mut dec = EventDecoder::new(any_value(a), HandleControl::Ignore);
                            if let Some(mk) = level_keys[*lv].1 {
                                let _ = dec.process_keyevent(KeyEvent::new(mk, KeyState::Down));
                            }
                            let _ = dec.process_keyevent(KeyEvent::new(*key, KeyState::Down));
                            for i in 0..*n {
                                dec.change_layout(any_value(if i + 1 == *n { b } else { (a + i) % 10 }));
                            }
                            dec.process_keyevent(KeyEvent::new(*key, KeyState::Down))
                        });
                        probes += 1;
                        rep.evaluations += 1;
                        let Ok(got) = r else { continue }; // a panic is C08's matter
                        if got != Some(DecodedKey::Unicode(*c)) {
                            rep.violate(
                                format!("C12|via-decoder|{}|after-switching-from={}|missing=U+{:04X}", layout_name(b), layout_name(a), *c as u32),
                                format!(
                                    "EventDecoder<AnyLayout>: {} types '{}' (U+{:04X}) only with {:?} at the {} level; after that key and level were used on {} and {} change_layout call(s) ended on {}, the key types {} – the character can no longer be typed",
                                    layout_name(b), c, *c as u32, key, ["unshifted", "shifted", "AltGr"][*lv], layout_name(a), n, layout_name(b), odk_str(&got)
                                ),
                                J::obj().with("kind", J::s("ascii-after-switch")).with("from", J::s(layout_name(a))).with("to", J::s(layout_name(b))).with("switches", J::u(*n as u64)).with("char", J::u(*c as u64)).with("key", J::s(kname(*key))),
                            );
                        }
                    }
                }
            }
        }
        // a key that was held for a very long time (a book on the keyboard), then another key, then its release: the
        // single-witness characters must still be typed by their key afterwards
        {
            let mut held_probes = 0u64;
            let repeats: u32 = if light() { 70_000 } else { 131_100 };
            for b in 0..10usize {
                let mut wit: BTreeMap<char, Vec<(KeyCode, usize)>> = BTreeMap::new();
                for (ki, key) in plain.iter() {
                    for (lv, (m, _)) in level_keys.iter().enumerate() {
                        if let Some(c) = enc_char(cube.get(b, 0, *ki, 1, B_NUMLOCK | m)) {
                            if (' '..='~').contains(&c) && cube.get(b, 0, *ki, 0, B_NUMLOCK | m) == c as u32 {
                                wit.entry(c).or_default().push((*key, lv));
                            }
                        }
                    }
                }
                for (c, v) in wit.iter().filter(|(_, v)| v.len() == 1).take(if rep.thorough() { 95 } else { 12 }) {
                    let (key, lv) = v[0];
                    let r = guarded(|| {
                        let mut dec = EventDecoder::new(any_value(b), HandleControl::Ignore);
                        if let Some(mk) = level_keys[lv].1 {
                            let _ = dec.process_keyevent(KeyEvent::new(mk, KeyState::Down));
                        }
                        for _ in 0..repeats {
                            let _ = dec.process_keyevent(KeyEvent::new(key, KeyState::Down));
                        }
                        let other = if key == KeyCode::F1 { KeyCode::F2 } else { KeyCode::F1 };
                        let _ = dec.process_keyevent(KeyEvent::new(other, KeyState::Down));
                        let _ = dec.process_keyevent(KeyEvent::new(other, KeyState::Up));
                        let _ = dec.process_keyevent(KeyEvent::new(key, KeyState::Up));
                        dec.process_keyevent(KeyEvent::new(key, KeyState::Down))
                    });
                    held_probes += 1;
                    rep.evaluations += repeats as u64;
                    let Ok(got) = r else { continue };
                    if got != Some(DecodedKey::Unicode(*c)) {
                        rep.violate(
                            format!("C12|via-decoder|{}|after-long-hold|missing=U+{:04X}", layout_name(b), *c as u32),
                            format!(
                                "EventDecoder<AnyLayout>: {} types '{}' (U+{:04X}) only with {:?} at the {} level; after that key was held for {} repeats, another key was typed and the key was released, its next press gives {} – the character can no longer be typed",
                                layout_name(b), c, *c as u32, key, ["unshifted", "shifted", "AltGr"][lv], repeats, odk_str(&got)
                            ),
                            J::obj().with("kind", J::s("ascii-after-long-hold")).with("layout", J::s(layout_name(b))).with("char", J::u(*c as u64)).with("key", J::s(kname(key))).with("repeats", J::u(repeats as u64)),
                        );
                    }
                }
            }
            rep.count("single_witness_characters_typed_after_a_long_hold", held_probes);
        }
        rep.count("single_witness_characters_typed_after_layout_switches", probes);
    }
    rep.count("ascii_characters_with_a_witness_key", witnesses);
    rep.distinct_nontrivial = witnesses;
    rep.exhaustive = Some(true);
    rep.rule = "reference-free: per layout (the 10 shipped layouts), the set of Unicode outputs over every key × {no modifier, left Shift, right Alt alone} (NumLock on, both Ctrl modes) must contain all 95 characters U+0020..U+007E; \
                distinct_nontrivial = (layout, character) pairs for which a witness key was found"
        .into();
    rep.require("witnesses", witnesses, 900);
}

// =================================================================== C15

pub fn run_c15(rep: &mut Report) {
    let cube = cube_common("C15", rep);
    let mut distinct: BTreeSet<(usize, usize, bool)> = BTreeSet::new();
    for li in 0..cube.n_layouts {
        let seps: &[char] = if li < 10 { decimal_seps(layout_name(li)) } else { &[',', '.'] };
        let ret_i = cube.key_index(KeyCode::Return).unwrap();
        for form in 0..1 {
            for mode in 0..2 {
                for m in 0..512u16 {
                    let nl = m & B_NUMLOCK != 0;
                    let check = |key: KeyCode, ok: &dyn Fn(u32) -> bool, want: String, rep: &mut Report, distinct: &mut BTreeSet<(usize, usize, bool)>| {
                        let ki = cube.key_index(key).unwrap();
                        let got = cube.get(li, form, ki, mode, m);
                        rep.evaluations += 1;
                        if ok(got) {
                            distinct.insert((li, ki, nl));
                        } else {
                            rep.violate(
                                format!("C15|{}|key={:?}|numlock={}|want={}|got={}", layout_name(li), key, nl, want, cube.show(got)),
                                format!(
                                    "{} ({}): {:?} with {} (Ctrl mode {}) gives {}; expected {}",
                                    layout_name(li),
                                    FORM_NAMES[form],
                                    key,
                                    mods_str(m),
                                    mode_str(MODES[mode]),
                                    cube.show(got),
                                    want
                                ),
                                replay_layout(li, form, key, m, mode, &want, &cube.show(got)),
                            );
                        }
                    };
                    for (key, digit, alias) in NUMPAD_DIGITS.iter() {
                        if nl {
                            check(*key, &|g| g == *digit as u32, char_str(*digit), rep, &mut distinct);
                        } else if let Some(a) = alias {
                            let want = 0x8000_0000 | kidx(*a) as u32;
                            check(*key, &|g| g == want, format!("Raw({:?})", a), rep, &mut distinct);
                        }
                        // Numpad5 with NumLock off: no alias exists – unconstrained
                    }
                    for (key, c) in NUMPAD_OPS.iter() {
                        check(*key, &|g| g == *c as u32, char_str(*c), rep, &mut distinct);
                    }
                    let ret = cube.get(li, form, ret_i, mode, m);
                    check(KeyCode::NumpadEnter, &|g| g == ret && g == 0x0A, "U+000A (= Return)".into(), rep, &mut distinct);
                    if nl {
                        check(KeyCode::NumpadPeriod, &|g| enc_char(g).map(|c| seps.contains(&c)).unwrap_or(false), chars_str(seps), rep, &mut distinct);
                    } else {
                        check(KeyCode::NumpadPeriod, &|g| g == 0x7F, "U+007F".into(), rep, &mut distinct);
                    }
                    for (key, c) in EDIT_KEYS.iter() {
                        check(*key, &|g| g == *c as u32, char_str(*c), rep, &mut distinct);
                    }
                }
            }
        }
    }
    {
        let c = &cube;
        let acc = |li: usize, ki: usize, m: u16, _mode: usize| -> Acc {
            let key = c.keys[ki];
            let nl = m & B_NUMLOCK != 0;
            if let Some((_, digit, alias)) = NUMPAD_DIGITS.iter().find(|(k, _, _)| *k == key) {
                return if nl {
                    Acc::OneOf(vec![*digit as u32])
                } else {
                    match alias {
                        Some(a) => Acc::OneOf(vec![0x8000_0000 | kidx(*a) as u32]),
                        None => Acc::Any,
                    }
                };
            }
            if let Some((_, ch)) = NUMPAD_OPS.iter().find(|(k, _)| *k == key) {
                return Acc::OneOf(vec![*ch as u32]);
            }
            if key == KeyCode::NumpadEnter {
                return Acc::OneOf(vec![0x0A]);
            }
            if key == KeyCode::NumpadPeriod {
                return if nl { Acc::OneOf((if li < 10 { decimal_seps(layout_name(li)) } else { &[',', '.'][..] }).iter().map(|x| *x as u32).collect()) } else { Acc::OneOf(vec![0x7F]) };
            }
            if let Some((_, ch)) = EDIT_KEYS.iter().find(|(k, _)| *k == key) {
                return Acc::OneOf(vec![*ch as u32]);
            }
            Acc::Any
        };
        through_decoder("C15", rep, &cube, &NUMPAD_AND_EDIT, &acc);
    }
    rep.distinct_nontrivial = distinct.len() as u64;
    rep.exhaustive = Some(true);
    rep.rule = "tables of DESIGN.md A.4 (digit ↔ navigation alias, operators, decimal separator per layout, six editing keys) applied to the recorded cube in all 512 modifier sets × 2 modes × the 10 layouts, and to every press typed through Keyboard::process_keyevent in hostile histories (numpad keys re-pressed while held with NumLock toggled in between); \
                distinct_nontrivial = distinct (layout, key, NumLock state) cases observed correct"
        .into();
    rep.assumptions.push("decimal separator: ',' for No105Key/FiSe105Key, '.' for the others; De105Key accepts ',' (DIN/KBDGR) or '.'; Numpad5 with NumLock off is unconstrained (no navigation alias exists)".into());
    for (li, key) in [(0usize, KeyCode::Numpad7), (4, KeyCode::NumpadPeriod), (2, KeyCode::NumpadPeriod), (3, KeyCode::Tab)] {
        let ki = cube.key_index(key).unwrap();
        rep.sample_str(format!(
            "{} {:?}: NumLock on → {}, off → {}",
            layout_name(li),
            key,
            cube.show(cube.get(li, 0, ki, 1, B_NUMLOCK)),
            cube.show(cube.get(li, 0, ki, 1, 0))
        ));
    }
}

// =================================================================== C16

/// Several threads at once, each with objects of its own: whatever the crate keeps outside the objects (statics) is then
/// shared between them.  Every answer is judged exactly as in the sequential sweeps.  `kind` 17: AnyLayout look-ups (by value
/// and by reference) against the recorded answers of the wrapped layout; `kind` 16: presses through an
/// `EventDecoder<AnyLayout>` per thread, character-less keys must come out as their own raw key.
fn concurrent_objects(rep: &mut Report, cube: &Cube, kind: u8) {
    let threads = crate::scan::n_threads().max(4);
    let per_thread: u32 = if rep.thorough() { 4_000_000 } else { 400_000 };
    let nk = cube.keys.len();
    let found: Vec<Vec<(String, String)>> = std::thread::scope(|sc| {
        let hs: Vec<_> = (0..threads)
            .map(|t| {
                sc.spawn(move || {
                    let mut bad: Vec<(String, String)> = Vec::new();
                    let r = guarded(|| {
                        let mut x = (t as u32).wrapping_mul(0x9E37_79B9) | 1;
                        let mut next = || {
                            x ^= x << 13;
                            x ^= x >> 17;
                            x ^= x << 5;
                            x
                        };
                        if kind == 17 {
                            let objs: Vec<Box<dyn pc_keyboard::KeyboardLayout>> = (0..20).map(|o| layout_obj(o / 2, 1 + o % 2)).collect();
                            for _ in 0..per_thread {
                                let r = next();
                                // threads work on different variants most of the time
                                let o = ((r >> 20) as usize % 4 + t * 3) % 20;
                                let (ki, m, mode) = ((r >> 10) as usize % nk, (r & 511) as u16, ((r >> 9) & 1) as usize);
                                let got = dk_enc(objs[o].map_keycode(cube.keys[ki], &mods_from_bits(m), MODES[mode]));
                                let want = cube.get(o / 2, 0, ki, mode, m);
                                if got != want && bad.len() < 5 {
                                    bad.push((
                                        format!("C17|concurrent|{}|form={}|key={:?}|bare={}|wrapped={}", layout_name(o / 2), FORM_NAMES[1 + o % 2], cube.keys[ki], cube.show(want), cube.show(got)),
                                        format!("with {} threads using AnyLayout objects of their own at the same time: AnyLayout::{} used {} gives {} for {:?} with {} (mode {}); the wrapped layout itself gives {}", threads, layout_name(o / 2), if o % 2 == 0 { "by value" } else { "by reference" }, cube.show(got), cube.keys[ki], mods_str(m), mode_str(MODES[mode]), cube.show(want)),
                                    ));
                                }
                            }
                        } else {
                            let li = t % 10;
                            let mut dec = EventDecoder::new(any_value(li), if t % 2 == 0 { HandleControl::Ignore } else { HandleControl::MapLettersToUnicode });
                            let plain: Vec<KeyCode> = cube.keys.iter().copied().filter(|k| !MOD_KEYS.contains(k)).collect();
                            // each thread keeps to a few keys of its own, so that a value leaking from another thread stands out
                            let mine: Vec<KeyCode> = (0..6).map(|i| plain[(t * 7 + i * 19) % plain.len()]).collect();
                            for _ in 0..per_thread {
                                let k = mine[next() as usize % mine.len()];
                                let got = dec.process_keyevent(KeyEvent::new(k, KeyState::Down));
                                let _ = dec.process_keyevent(KeyEvent::new(k, KeyState::Up));
                                let ok = match got {
                                    Some(DecodedKey::RawKey(r)) => r == k || numpad_alias(k) == Some(r),
                                    Some(DecodedKey::Unicode(_)) => !CHARLESS.contains(&k),
                                    None => true, // no decoded key at all is C14's matter
                                };
                                if !ok && bad.len() < 5 {
                                    bad.push((
                                        format!("C16|concurrent|{}|key={:?}|got={}", layout_name(li), k, odk_str(&got)),
                                        format!("with {} threads typing on EventDecoder<AnyLayout> objects of their own at the same time: on {} the press of {:?} decoded to {}", threads, layout_name(li), k, odk_str(&got)),
                                    ));
                                }
                            }
                        }
                    });
                    let _ = r; // a panic is C08's matter
                    bad
                })
            })
            .collect();
        hs.into_iter().map(|h| h.join().unwrap_or_default()).collect()
    });
    rep.evaluations += threads as u64 * per_thread as u64;
    rep.count("operations_by_threads_working_at_the_same_time_on_objects_of_their_own", threads as u64 * per_thread as u64);
    for v in found {
        for (sig, what) in v {
            rep.violate(sig, what, J::obj().with("kind", J::s("concurrent-objects")).with("threads", J::u(threads as u64)));
        }
    }
}

pub fn run_c16(rep: &mut Report) {
    let cube = cube_common("C16", rep);
    let mut distinct: BTreeSet<(usize, usize)> = BTreeSet::new();
    let mut raw_outputs = 0u64;
    for li in 0..cube.n_layouts {
        for form in 0..3 {
            for (ki, key) in cube.keys.iter().enumerate() {
                let charless = CHARLESS.contains(key);
                let own = 0x8000_0000 | kidx(*key) as u32;
                let mut row_ok = true;
                for mode in 0..2 {
                    for m in 0..512u16 {
                        let got = cube.get(li, form, ki, mode, m);
                        rep.evaluations += 1;
                        if charless && got != own {
                            row_ok = false;
                            rep.violate(
                                format!("C16|{}|charless-key={:?}|got={}", layout_name(li), key, cube.show(got)),
                                format!(
                                    "{} ({}): {:?} carries no character on any keyboard and must decode to its own raw key; with {} (mode {}) it gives {}",
                                    layout_name(li),
                                    FORM_NAMES[form],
                                    key,
                                    mods_str(m),
                                    mode_str(MODES[mode]),
                                    cube.show(got)
                                ),
                                replay_layout(li, form, *key, m, mode, &format!("Raw({:?})", key), &cube.show(got)),
                            );
                        }
                        if enc_is_raw(got) {
                            raw_outputs += 1;
                            let alias_ok = m & B_NUMLOCK == 0 && numpad_alias(*key).map(|a| got == (0x8000_0000 | kidx(a) as u32)).unwrap_or(false);
                            if got != own && !alias_ok {
                                row_ok = false;
                                rep.violate(
                                    format!("C16|{}|masquerade|key={:?}|got={}|numlock={}", layout_name(li), key, cube.show(got), m & B_NUMLOCK != 0),
                                    format!(
                                        "{} ({}): pressing {:?} with {} (mode {}) decodes to {} – neither the key itself nor its NumLock-off navigation alias",
                                        layout_name(li),
                                        FORM_NAMES[form],
                                        key,
                                        mods_str(m),
                                        mode_str(MODES[mode]),
                                        cube.show(got)
                                    ),
                                    replay_layout(li, form, *key, m, mode, &format!("Raw({:?}) or its alias", key), &cube.show(got)),
                                );
                            }
                        }
                    }
                }
                if row_ok && (charless || true) {
                    distinct.insert((li * 3 + form, ki));
                }
            }
        }
    }
    {
        let c = &cube;
        let acc = |_li: usize, ki: usize, _m: u16, _mode: usize| -> Acc {
            let key = c.keys[ki];
            if CHARLESS.contains(&key) {
                Acc::OneOf(vec![0x8000_0000 | kidx(key) as u32])
            } else {
                Acc::RawSelfOrAlias
            }
        };
        let mut focus: Vec<KeyCode> = CHARLESS.iter().copied().filter(|k| !MOD_KEYS.contains(k)).collect();
        focus.extend(NUMPAD_DIGITS.iter().map(|(k, _, _)| *k));
        through_decoder("C16", rep, &cube, &focus, &acc);
        concurrent_objects(rep, &cube, 16);
        // what a caller sees of a decoded key is its value under `==`: a raw key must not compare equal to any character
        // (nor to another raw key), or a character-less key "types" that character for every caller that compares
        {
            let mut n = 0u64;
            for k in cube.keys.iter() {
                let r = guarded(|| {
                    let raw = DecodedKey::RawKey(*k);
                    let mut bad: Option<String> = None;
                    for c in (0u32..0x3000).filter_map(char::from_u32) {
                        if raw == DecodedKey::Unicode(c) || DecodedKey::Unicode(c) == raw {
                            bad = Some(crate::keys::char_str(c));
                            break;
                        }
                    }
                    if bad.is_none() {
                        for k2 in cube.keys.iter() {
                            if (raw == DecodedKey::RawKey(*k2)) != (k == k2) {
                                bad = Some(format!("Raw({:?})", k2));
                                break;
                            }
                        }
                    }
                    bad
                });
                n += 0x3000 + cube.keys.len() as u64;
                if let Ok(Some(other)) = r {
                    rep.violate(
                        format!("C16|equality|key={:?}|equal-to={}", k, other),
                        format!("DecodedKey::RawKey({:?}) == {} is true: for every caller that compares decoded keys, this key is indistinguishable from that value", k, other),
                        J::obj().with("kind", J::s("decoded-key-equality")).with("key", J::s(kname(*k))).with("other", J::s(other)),
                    );
                }
            }
            rep.evaluations += n;
            rep.count("decoded_key_equality_comparisons", n);
        }
    }
    rep.count("raw_key_outputs_examined", raw_outputs);
    rep.count("charless_keys_required_raw", CHARLESS.len() as u64);
    rep.distinct_nontrivial = distinct.len() as u64;
    rep.exhaustive = Some(true);
    rep.rule = "the 52 keys that carry no character on any keyboard must give RawKey(self) in all 30 layout objects × 512 × 2; every RawKey(r) output of any key must have r = the key, or (numpad key, NumLock off) its navigation alias; the same on every press typed through Keyboard::process_keyevent in hostile histories; \
                distinct_nontrivial = (layout object, key) rows observed clean"
        .into();
    let ki = cube.key_index(KeyCode::F1).unwrap();
    rep.sample_str(format!("Azerty F1 {{lshift+ralt}} → {}", cube.show(cube.get(3, 0, ki, 0, B_LSHIFT | B_RALT))));
    let ki = cube.key_index(KeyCode::Oem9).unwrap();
    rep.sample_str(format!("Jis109Key Oem9 {{}} → {}", cube.show(cube.get(6, 0, ki, 0, 0))));
    let ki = cube.key_index(KeyCode::Numpad1).unwrap();
    rep.sample_str(format!("Colemak Numpad1 {{}} (NumLock off) → {}", cube.show(cube.get(7, 0, ki, 0, 0))));
}

// =================================================================== C17

/// C17, process-wide state behind the wrapper (see hidden.rs): if AnyLayout look-ups write to static memory, inputs that
/// leave a written word with the same value are looked up back to back and the second answer is compared with the
/// wrapped layout's own.
fn c17_hidden_state_probe(rep: &mut Report, cube: &Cube) {
    use crate::hidden::*;
    let Some(regions) = exe_rw_regions() else {
        rep.notes.push("static-memory watch: the executable's writable mappings could not be read from /proc/self/maps; probe skipped".into());
        return;
    };
    let objs: Vec<Box<dyn pc_keyboard::KeyboardLayout>> = (0..20).map(|o| layout_obj(o / 2, 1 + o % 2)).collect();
    let nk = cube.keys.len();
    let per_obj = nk * 1024;
    let decode = |input: u32| -> (usize, usize, usize, u16) {
        let i = input as usize;
        (i / per_obj, (i % per_obj) / 1024, (i % 1024) >> 9, (i & 511) as u16)
    };
    let call = |input: u32| -> u32 {
        let (o, ki, mode, m) = decode(input);
        dk_enc(objs[o].map_keycode(cube.keys[ki], &mods_from_bits(m), MODES[mode]))
    };
    let total_inputs = (20 * per_obj) as u32;
    // counters in static memory behind the wrapper: driven across their wrap-arounds under the differential
    {
        let mut n = 0u32;
        let mut step = || -> Option<(String, String)> {
            n = n.wrapping_add(1);
            let input = n.wrapping_mul(2_654_435_761) % total_inputs;
            let (o, ki, mode, m) = decode(input);
            let want = cube.get(o / 2, 0, ki, mode, m);
            match guarded(|| call(input)) {
                Ok(got) if got != want => Some((
                    format!("C17|static-counter-wrap|{}|form={}|key={:?}|bare={}|wrapped={}", layout_name(o / 2), FORM_NAMES[1 + o % 2], cube.keys[ki], cube.show(want), cube.show(got)),
                    format!("AnyLayout::{} used {} gives {} for {:?} with {} (mode {}); the wrapped layout itself gives {}", layout_name(o / 2), if o % 2 == 0 { "by value" } else { "by reference" }, cube.show(got), cube.keys[ki], mods_str(m), mode_str(MODES[mode]), cube.show(want)),
                )),
                _ => None, // a panic is C08's matter
            }
        };
        crate::hidden::counter_wraps(rep, "AnyLayout::map_keycode", &mut step, 1000);
    }
    let r = guarded(|| {
        // warm-up (lazy initialisation inside std or the crate is not what is looked for)
        for s in 0..64u32 {
            let _ = call((s * 39_119) % total_inputs);
        }
        let (mut a, mut b) = (Vec::with_capacity(regions.bytes), Vec::with_capacity(regions.bytes));
        regions.snapshot_into(&mut a);
        regions.snapshot_into(&mut b);
        if a != b {
            return Err("the executable's static memory changes between two snapshots with nothing in between".to_string());
        }
        let mut touched: BTreeSet<usize> = BTreeSet::new();
        let watched = 256u32;
        for s in 0..watched {
            regions.snapshot_into(&mut a);
            let _ = call((s.wrapping_mul(2_654_435_761)) % total_inputs);
            regions.snapshot_into(&mut b);
            for (i, (x, y)) in a.iter().zip(b.iter()).enumerate() {
                if x != y {
                    touched.insert(i);
                }
            }
            if touched.len() > 256 {
                return Err(format!("{} bytes of static memory change across look-ups: too much to be the crate's", touched.len()));
            }
        }
        if touched.is_empty() {
            return Ok((watched as u64, 0usize, 0u64, 0u64, Vec::new()));
        }
        let words = words_over(&touched, &regions);
        let mut pairs: BTreeSet<(u32, u32)> = BTreeSet::new();
        let mut looked = 0u64;
        for (g, addr) in words.iter().take(32) {
            let mut vals: Vec<(u64, u32)> = Vec::with_capacity(total_inputs as usize);
            for input in 0..total_inputs {
                let _ = call(input);
                vals.push((read_word(*g, *addr), input));
            }
            looked += total_inputs as u64;
            colliding_pairs(&mut vals, 3, &mut pairs, 400_000);
        }
        let mut bad = Vec::new();
        for (x, y) in pairs.iter() {
            let _ = call(*x);
            let got = call(*y);
            let (o, ki, mode, m) = decode(*y);
            let want = cube.get(o / 2, 0, ki, mode, m);
            if got != want && bad.len() < 50 {
                bad.push((*x, *y, got, want));
            }
        }
        Ok((watched as u64, touched.len(), looked, pairs.len() as u64, bad))
    });
    match r {
        Err(_) => rep.count("static_memory_probe_aborted_by_a_panic(C08_matter)", 1),
        Ok(Err(why)) => rep.notes.push(format!("static-memory watch stepped aside: {}", why)),
        Ok(Ok((watched, touched, looked, pairs, bad))) => {
            rep.count("lookups_watched_for_writes_to_static_memory", watched);
            rep.count("bytes_of_static_memory_written_by_anylayout_lookups", touched as u64);
            rep.evaluations += pairs;
            if touched == 0 {
                rep.notes.push(format!("static-memory watch: no byte of the executable's {} bytes of writable static memory changed across {} AnyLayout look-ups (no process-wide state behind the wrapper)", regions.bytes, watched));
            } else {
                rep.count("lookups_fingerprinted_by_the_written_words", looked);
                rep.count("back_to_back_lookup_pairs_that_leave_a_written_word_equal", pairs);
                rep.notes.push(format!(
                    "static-memory watch: AnyLayout look-ups write {} bytes of static memory (process-wide state that no Debug rendering shows); {} ordered pairs of inputs that leave one of the written words with the same value were looked up back to back",
                    touched, pairs
                ));
            }
            for (x, y, got, want) in bad {
                let (ox, kx, modex, mx) = decode(x);
                let (oy, ky, modey, my) = decode(y);
                rep.violate(
                    format!("C17|after-another-lookup|{}|form={}|key={:?}|bare={}|wrapped={}", layout_name(oy / 2), FORM_NAMES[1 + oy % 2], cube.keys[ky], cube.show(want), cube.show(got)),
                    format!(
                        "AnyLayout::{} used {} gives {} for {:?} with {} (mode {}) when the look-up before it was AnyLayout::{} {:?} with {} (mode {}); the wrapped layout itself gives {}",
                        layout_name(oy / 2),
                        if oy % 2 == 0 { "by value" } else { "by reference" },
                        cube.show(got),
                        cube.keys[ky],
                        mods_str(my),
                        mode_str(MODES[modey]),
                        layout_name(ox / 2),
                        cube.keys[kx],
                        mods_str(mx),
                        mode_str(MODES[modex]),
                        cube.show(want)
                    ),
                    J::obj()
                        .with("kind", J::s("layout-pair"))
                        .with("first", J::s(format!("{} {} {:?} {} {}", layout_name(ox / 2), FORM_NAMES[1 + ox % 2], cube.keys[kx], mods_str(mx), mode_str(MODES[modex]))))
                        .with("second", J::s(format!("{} {} {:?} {} {}", layout_name(oy / 2), FORM_NAMES[1 + oy % 2], cube.keys[ky], mods_str(my), mode_str(MODES[modey]))))
                        .with("expected_last", J::s(cube.show(want)))
                        .with("observed_last", J::s(cube.show(got))),
                );
            }
        }
    }
}

fn dk_enc_opt(d: &Option<DecodedKey>) -> Option<u32> {
    d.clone().map(dk_enc)
}

pub fn run_c17(rep: &mut Report) {
    let cube = cube_common("C17", rep);
    let mut distinct = 0u64;
    for li in 0..10 {
        for form in 1..3 {
            for (ki, key) in cube.keys.iter().enumerate() {
                let mut row_ok = true;
                for mode in 0..2 {
                    for m in 0..512u16 {
                        let bare = cube.get(li, 0, ki, mode, m);
                        let wrapped = cube.get(li, form, ki, mode, m);
                        rep.evaluations += 1;
                        if bare != wrapped {
                            row_ok = false;
                            rep.violate(
                                format!("C17|{}|form={}|key={:?}|bare={}|wrapped={}", layout_name(li), FORM_NAMES[form], key, cube.show(bare), cube.show(wrapped)),
                                format!(
                                    "AnyLayout::{} used {} gives {} for {:?} with {} (mode {}); the wrapped layout itself gives {}",
                                    layout_name(li),
                                    if form == 1 { "by value" } else { "by reference" },
                                    cube.show(wrapped),
                                    key,
                                    mods_str(m),
                                    mode_str(MODES[mode]),
                                    cube.show(bare)
                                ),
                                replay_layout(li, form, *key, m, mode, &cube.show(bare), &cube.show(wrapped)),
                            );
                        }
                    }
                }
                if row_ok {
                    distinct += 1;
                }
            }
        }
    }
    // ---- switching the wrapper's variant: EventDecoder<AnyLayout>::change_layout over all ordered pairs
    let mut switches = 0u64;
    for a in 0..10 {
        for b in 0..10 {
            let r = guarded(|| {
                let mut dec = EventDecoder::new(any_value(a), HandleControl::Ignore);
                let mut bad = Vec::new();
                // something typed on the first layout, then switch, then every key on the second
                let _ = dec.process_keyevent(KeyEvent::new(KeyCode::Q, KeyState::Down));
                dec.change_layout(any_value(b));
                let bare = bare_dyn(b);
                for k in cube.keys.iter() {
                    if MOD_KEYS.contains(k) {
                        continue;
                    }
                    let got = dec.process_keyevent(KeyEvent::new(*k, KeyState::Down));
                    let want = bare.map_keycode(*k, &mods_from_bits(B_NUMLOCK), HandleControl::Ignore);
                    if got != Some(want) {
                        bad.push((*k, got, want));
                    }
                }
                bad
            });
            switches += 1;
            rep.evaluations += cube.keys.len() as u64;
            match r {
                Ok(bad) => {
                    for (k, got, want) in bad {
                        rep.violate(
                            format!("C17|switch|{}→{}|key={:?}|want={}|got={}", layout_name(a), layout_name(b), k, dk_str(&want), odk_str(&got)),
                            format!(
                                "EventDecoder<AnyLayout>: after change_layout from {} to {}, pressing {:?} gives {} but {} itself gives {}",
                                layout_name(a),
                                layout_name(b),
                                k,
                                odk_str(&got),
                                layout_name(b),
                                dk_str(&want)
                            ),
                            J::obj().with("kind", J::s("anylayout-switch")).with("from", J::s(layout_name(a))).with("to", J::s(layout_name(b))).with("key", J::s(kname(k))),
                        );
                    }
                }
                Err(p) => {
                    rep.panics += 1;
                    rep.violate(format!("C17|switch|panic|{}", panic_sig(&p)), format!("change_layout {}→{} panicked: {}", layout_name(a), layout_name(b), p), J::Null);
                }
            }
        }
    }
    // ---- the same with a key held (typematic repeats) across the switch, and with n change_layout calls on the way: the
    //      very next press must be the new variant's answer, whatever was remembered about the key
    {
        let sample = [KeyCode::Q, KeyCode::A, KeyCode::Y, KeyCode::Z, KeyCode::M, KeyCode::Key2, KeyCode::Oem8, KeyCode::Oem5, KeyCode::Oem7, KeyCode::Oem12, KeyCode::Oem13, KeyCode::NumpadPeriod];
        let special = (rep.seed as usize) % 10;
        let mut n_checked = 0u64;
        for a in 0..10usize {
            for b in 0..10usize {
                if a == b {
                    continue;
                }
                let ns: &[usize] = if b == special || a == special { &[1, 2, 255, 256, 257, 65_535, 65_536, 65_537] } else { &[1, 256] };
                let bare = bare_dyn(b);
                for n in ns {
                    // the long switch runs for a few keys only
                    for key in sample.iter().take(if *n > 1000 { 3 } else { sample.len() }) {
                        for shifted in [false, true] {
                            let r = guarded(|| {
                                let mut dec = EventDecoder::new(any_value(a), HandleControl::Ignore);
                                if shifted {
                                    let _ = dec.process_keyevent(KeyEvent::new(KeyCode::RAltGr, KeyState::Down));
                                }
                                for _ in 0..4 {
                                    let _ = dec.process_keyevent(KeyEvent::new(*key, KeyState::Down));
                                }
                                for i in 0..*n {
                                    dec.change_layout(any_value(if i + 1 == *n { b } else { (a + 1 + i) % 10 }));
                                }
                                dec.process_keyevent(KeyEvent::new(*key, KeyState::Down))
                            });
                            n_checked += 1;
                            rep.evaluations += 1;
                            let m = if shifted { B_NUMLOCK | B_RALT } else { B_NUMLOCK };
                            let want = bare.map_keycode(*key, &mods_from_bits(m), HandleControl::Ignore);
                            if let Ok(got) = r {
                                if dk_enc_opt(&got) != Some(dk_enc(want.clone())) {
                                    rep.violate(
                                        format!("C17|switch|{}→{}|key={:?}|want={}|got={}", layout_name(a), layout_name(b), key, dk_str(&want), odk_str(&got)),
                                        format!(
                                            "EventDecoder<AnyLayout>: {:?} held on {} (four makes{}), then {} change_layout call(s) ending on {}: the next make gives {} but {} itself gives {}",
                                            key, layout_name(a), if shifted { ", AltGr held" } else { "" }, n, layout_name(b), odk_str(&got), layout_name(b), dk_str(&want)
                                        ),
                                        J::obj().with("kind", J::s("anylayout-switch")).with("from", J::s(layout_name(a))).with("to", J::s(layout_name(b))).with("key", J::s(kname(*key))).with("switches", J::u(*n as u64)),
                                    );
                                }
                            }
                        }
                    }
                }
            }
        }
        rep.count("held_key_across_variant_switches", n_checked);
    }
    // by-reference wrapper through a Keyboard as well
    for li in 0..10 {
        let r = guarded(|| {
            let any = any_value(li);
            let mut kb = Keyboard::new(ScancodeSet2::new(), &any, HandleControl::MapLettersToUnicode);
            let bare = bare_dyn(li);
            let mut bad = 0;
            for k in cube.keys.iter() {
                if MOD_KEYS.contains(k) {
                    continue;
                }
                let got = kb.process_keyevent(KeyEvent::new(*k, KeyState::Down));
                let want = bare.map_keycode(*k, &mods_from_bits(B_NUMLOCK), HandleControl::MapLettersToUnicode);
                if got != Some(want) {
                    bad += 1;
                }
            }
            bad
        });
        rep.evaluations += cube.keys.len() as u64;
        if r != Ok(0) {
            rep.violate(
                format!("C17|keyboard-with-ref-wrapper|{}|{:?}", layout_name(li), r),
                format!("Keyboard<&AnyLayout, _> over {} disagrees with the bare layout on {:?} keys", layout_name(li), r),
                J::Null,
            );
        }
    }
    // ---- collision-guided pairs on EventDecoder<AnyLayout>, steered by the object's raw memory (no Debug needed): inputs that
    //      leave a word of the decoder equal although they differ (a remembered look-up keyed on a lossy digest) are pressed
    //      back to back; the second press must be what the wrapped layout itself returns for it
    {
        let lis: Vec<usize> = if rep.thorough() { (0..10).collect() } else { vec![(rep.seed as usize) % 10, ((rep.seed as usize) + 3) % 10] };
        let mut handles = Vec::new();
        for li in lis {
            let keys = cube.keys.clone();
            handles.push((li, std::thread::spawn(move || guarded(|| crate::forks::raw_collision_pairs(li, &keys, 300_000)))));
        }
        let (mut fp, mut np) = (0u64, 0u64);
        for (li, h) in handles {
            let Ok(Ok((obs, fingerprinted, pairs))) = h.join() else { continue };
            fp += fingerprinted;
            np += pairs;
            let mut reported = 0;
            for o in obs {
                rep.evaluations += 1;
                let (ki, m, mode) = o.second;
                // the oracle is an EventDecoder over the bare layout put through the very same operations
                let Some(want) = o.bare.clone() else { continue };
                if dk_enc_opt(&o.got) != Some(dk_enc(want.clone())) && reported < 20 {
                    reported += 1;
                    let (k1, m1, mode1) = o.first;
                    rep.violate(
                        format!("C17|decoder-pair|{}|key={:?}|want={}|got={}", layout_name(li), cube.keys[ki], dk_str(&want), odk_str(&o.got)),
                        format!(
                            "EventDecoder<AnyLayout::{}>: after a press of {:?} with {} (mode {}) and modifier events only, the press of {:?} with {} (mode {}) gives {} but {} itself gives {}",
                            layout_name(li), cube.keys[k1], mods_str(m1), mode_str(MODES[mode1]), cube.keys[ki], mods_str(m), mode_str(MODES[mode]), odk_str(&o.got), layout_name(li), dk_str(&want)
                        ),
                        J::obj().with("kind", J::s("anylayout-decoder-pair")).with("layout", J::s(layout_name(li))).with("first", J::s(format!("{:?} {} {}", cube.keys[k1], mods_str(m1), mode_str(MODES[mode1])))).with("second", J::s(format!("{:?} {} {}", cube.keys[ki], mods_str(m), mode_str(MODES[mode])))),
                    );
                }
            }
        }
        rep.count("presses_fingerprinted_by_the_raw_memory_of_EventDecoder<AnyLayout>", fp);
        rep.count("pairs_of_presses_leaving_a_memory_word_equal_pressed_back_to_back", np);
    }
    c17_hidden_state_probe(rep, &cube);
    concurrent_objects(rep, &cube, 17);
    rep.count("variant_switches", switches);
    rep.distinct_nontrivial = distinct;
    rep.exhaustive = Some(true);
    rep.rule = "differential: AnyLayout::X(X) by value and &AnyLayout::X(X) against X itself on the whole recorded cube (10 × 2 × keys × 512 × 2); EventDecoder<AnyLayout>::change_layout through all 100 ordered pairs of variants, every key compared with the bare target layout; \
                distinct_nontrivial = (variant, form, key) rows identical to the wrapped layout on all 1024 cells"
        .into();
    let ki = cube.key_index(KeyCode::Q).unwrap();
    rep.sample_str(format!(
        "Azerty Q: bare → {}, AnyLayout by value → {}, &AnyLayout → {}",
        cube.show(cube.get(3, 0, ki, 1, 0)),
        cube.show(cube.get(3, 1, ki, 1, 0)),
        cube.show(cube.get(3, 2, ki, 1, 0))
    ));
    let _ = AnyLayout::Us104Key(pc_keyboard::layouts::Us104Key);
    let _ = ScancodeSet1::new();
}
