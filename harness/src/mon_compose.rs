//! C18 — Keyboard ≡ frame decoder + scancode decoder + event decoder used separately, stages isolated.
//!
//! Differential oracle: every operation is applied to a real `Keyboard` and to three separately
//! owned real stage objects wired as the statement says; results and all three sub-state
//! renderings must agree after every operation, and an operation may only change the rendering
//! of a stage it feeds.

use crate::json::J;
use crate::keys::*;
use crate::layouts::*;
use crate::model::*;
use crate::report::*;
use crate::rng::Rng;
use crate::scan::*;
use pc_keyboard::{DecodedKey, Error, EventDecoder, HandleControl, KeyCode, KeyEvent, KeyState, Keyboard, Ps2Decoder, ScancodeSet1, ScancodeSet2};
use std::collections::{BTreeMap, BTreeSet};

#[derive(Clone, Copy, Debug, PartialEq, Eq)]
pub enum KOp {
    Bit(bool),
    Word(u16),
    Byte(u8),
    Ev(KeyCode, KeyState),
    Clear,
    Mode(HandleControl),
}
pub const KOP_NAMES: [&str; 6] = ["add_bit", "add_word", "add_byte", "process_keyevent", "clear", "set_ctrl_handling"];
impl KOp {
    pub fn kind(&self) -> usize {
        match self {
            KOp::Bit(_) => 0,
            KOp::Word(_) => 1,
            KOp::Byte(_) => 2,
            KOp::Ev(..) => 3,
            KOp::Clear => 4,
            KOp::Mode(_) => 5,
        }
    }
    pub fn show(&self) -> String {
        match self {
            KOp::Bit(b) => format!("bit:{}", *b as u8),
            KOp::Word(w) => format!("word:{}", w),
            KOp::Byte(b) => format!("byte:{}", b),
            KOp::Ev(k, s) => format!("ev:{}:{:?}", state_str(*s), k),
            KOp::Clear => "clear".into(),
            KOp::Mode(h) => format!("mode:{}", mode_str(*h)),
        }
    }
    pub fn parse(s: &str) -> Option<KOp> {
        let p: Vec<&str> = s.split(':').collect();
        match p[0] {
            "bit" => Some(KOp::Bit(p.get(1)? == &"1")),
            "word" => Some(KOp::Word(p.get(1)?.parse().ok()?)),
            "byte" => Some(KOp::Byte(p.get(1)?.parse().ok()?)),
            "clear" => Some(KOp::Clear),
            "mode" => Some(KOp::Mode(if p.get(1)? == &"Map" { HandleControl::MapLettersToUnicode } else { HandleControl::Ignore })),
            "ev" => {
                let st = match *p.get(1)? {
                    "Down" => KeyState::Down,
                    "Up" => KeyState::Up,
                    _ => KeyState::SingleShot,
                };
                Some(KOp::Ev(key_by_name(p.get(2)?)?, st))
            }
            _ => None,
        }
    }
}

#[derive(Clone, Debug, PartialEq, Eq)]
pub enum KRes {
    Scan(Result<Option<KeyEvent>, Error>),
    Key(Option<DecodedKey>),
    Unit,
    Panic,
}
impl KRes {
    pub fn show(&self) -> String {
        match self {
            KRes::Scan(r) => res_str(r),
            KRes::Key(d) => odk_str(d),
            KRes::Unit => "()".into(),
            KRes::Panic => "PANIC".into(),
        }
    }
}

type Lay = Dbg<DynLayout>;
fn mk_layout(li: usize) -> Lay {
    Dbg(dyn_layout(li, 0), "L")
}

/// The Keyboard under test next to three separately owned stage objects.
pub struct Twin<D: Dec> {
    pub kb: Keyboard<Lay, D>,
    pub ps2: Ps2Decoder,
    pub sc: D,
    pub evd: EventDecoder<Lay>,
}

pub struct Mismatch {
    pub what: &'static str, // result | framing-state | scancode-state | event-state | isolation:<stage>
    pub detail: String,
}

impl<D: Dec> Twin<D> {
    pub fn new(li: usize, mode: HandleControl) -> Twin<D> {
        Twin {
            kb: Keyboard::new(D::fresh(), mk_layout(li), mode),
            ps2: crate::scan::fresh_ps2(),
            sc: D::fresh(),
            evd: EventDecoder::new(mk_layout(li), mode),
        }
    }
    fn renderings(&self) -> (String, String, String) {
        (format!("{:?}", self.ps2), format!("{:?}", self.sc), format!("{:?}", self.evd))
    }
    /// apply without checking (used to park stages; the same ops are checked elsewhere)
    pub fn apply_quiet(&mut self, op: &KOp) -> (KRes, KRes, [bool; 3]) {
        let mut fed = [false; 3];
        // each side runs in its own guarded section: a panic is an outcome like any other, and the
        // Keyboard ≡ stages comparison holds if both sides panic alike (reporting the panic is C08's job)
        let kb = &mut self.kb;
        let got = guarded(|| match op {
            KOp::Bit(b) => KRes::Scan(kb.add_bit(*b)),
            KOp::Word(w) => KRes::Scan(kb.add_word(*w)),
            KOp::Byte(b) => KRes::Scan(kb.add_byte(*b)),
            KOp::Ev(k, s) => KRes::Key(kb.process_keyevent(KeyEvent::new(*k, *s))),
            KOp::Clear => {
                kb.clear();
                KRes::Unit
            }
            KOp::Mode(h) => {
                kb.set_ctrl_handling(*h);
                KRes::Unit
            }
        })
        .unwrap_or(KRes::Panic);
        // the same thing with three stages used separately, wired as the statement says
        let (ps2, sc, evd) = (&mut self.ps2, &mut self.sc, &mut self.evd);
        let fedr = &mut fed;
        let want = guarded(|| match op {
            KOp::Bit(b) => {
                fedr[0] = true;
                KRes::Scan(match ps2.add_bit(*b) {
                    Err(e) => Err(e),
                    Ok(None) => Ok(None),
                    Ok(Some(byte)) => {
                        fedr[1] = true;
                        sc.advance_state(byte)
                    }
                })
            }
            // whole-word decoding goes through the frame check only; it does not touch the bit register
            KOp::Word(w) => KRes::Scan(match ps2.add_word(*w) {
                Err(e) => Err(e),
                Ok(byte) => {
                    fedr[1] = true;
                    sc.advance_state(byte)
                }
            }),
            KOp::Byte(b) => {
                fedr[1] = true;
                KRes::Scan(sc.advance_state(*b))
            }
            KOp::Ev(k, s) => {
                fedr[2] = true;
                KRes::Key(evd.process_keyevent(KeyEvent::new(*k, *s)))
            }
            KOp::Clear => {
                fedr[0] = true;
                ps2.clear();
                KRes::Unit
            }
            KOp::Mode(h) => {
                fedr[2] = true;
                evd.set_ctrl_handling(*h);
                KRes::Unit
            }
        })
        .unwrap_or(KRes::Panic);
        (got, want, fed)
    }

    /// apply and compare result, sub-states and isolation
    pub fn apply(&mut self, op: &KOp, changed: &mut [[u64; 3]; 6]) -> Option<Mismatch> {
        let (p0, s0, e0) = self.renderings();
        let k0 = format!("{:?}", self.kb);
        let (got, want, fed) = self.apply_quiet(op);
        let (p1, s1, e1) = self.renderings();
        let k1 = format!("{:?}", self.kb);
        if p0 != p1 {
            changed[op.kind()][0] += 1;
        }
        if s0 != s1 {
            changed[op.kind()][1] += 1;
        }
        if e0 != e1 {
            changed[op.kind()][2] += 1;
        }
        if got == KRes::Panic && want == KRes::Panic {
            return Some(Mismatch { what: "both-panicked", detail: "both the Keyboard and the separate stages panicked on this operation".into() });
        }
        if got != want {
            return Some(Mismatch {
                what: "result",
                detail: format!("Keyboard returned {} but the three stages used separately return {}", got.show(), want.show()),
            });
        }
        for (name, r) in [("framing-state", &p1), ("scancode-state", &s1), ("event-state", &e1)] {
            if !k1.contains(r.as_str()) {
                return Some(Mismatch {
                    what: name,
                    detail: format!("after the operation the Keyboard renders as {} which does not contain the separately used stage's state {}", k1, r),
                });
            }
        }
        // Isolation needs no verdict of its own: the separately owned stages only ever receive what the statement
        // routes to them, so a Keyboard operation that touched a stage it does not feed has just failed the
        // containment comparison above.  (Comparing a stage's rendering before/after would be stricter than the
        // property – e.g. a diagnostic cell updated by add_word(&self) – so the fed/changed matrix is evidence only.)
        let _ = (fed, k0, p0, s0, e0);
        None
    }
}

fn op_class(op: &KOp) -> String {
    match op {
        KOp::Word(w) => format!(
            "add_word({})",
            match frame_rule(*w) {
                FrameVerdict::Data(_) => "valid",
                FrameVerdict::BadStart => "bad-start",
                FrameVerdict::BadStop => "bad-stop",
                FrameVerdict::Parity => "bad-parity",
            }
        ),
        o => KOP_NAMES[o.kind()].to_string(),
    }
}

#[derive(Default)]
struct Out {
    both_panicked: u64,
    ops: u64,
    per_kind: [u64; 6],
    changed: [[u64; 3]; 6],
    cases: u64,
    violations: Vec<(String, String, J)>,
    panics: u64,
    distinct: BTreeSet<(usize, u64)>,
}

/// Run `setup` quietly then `checked` with full comparison, on a fresh twin.
fn run_case<D: Dec>(li: usize, setup: &[KOp], checked: &[KOp], out: &mut Out) {
    out.cases += 1;
    let r = guarded(|| {
        let mut tw: Twin<D> = Twin::new(li, HandleControl::MapLettersToUnicode);
        let mut changed = [[0u64; 3]; 6];
        for op in setup {
            let (g, w, _) = tw.apply_quiet(op);
            if g == KRes::Panic && w == KRes::Panic {
                return (Some((usize::MAX, *op, Mismatch { what: "both-panicked", detail: String::new() })), changed);
            }
            if g != w {
                return (Some((usize::MAX, *op, Mismatch { what: "result", detail: format!("(while parking stages) Keyboard returned {} vs {}", g.show(), w.show()) })), changed);
            }
        }
        for (i, op) in checked.iter().enumerate() {
            if let Some(m) = tw.apply(op, &mut changed) {
                return (Some((i, *op, m)), changed);
            }
        }
        (None, changed)
    });
    out.ops += (setup.len() + checked.len()) as u64;
    for op in checked {
        out.per_kind[op.kind()] += 1;
    }
    let all: Vec<String> = setup.iter().chain(checked.iter()).map(|o| o.show()).collect();
    match r {
        Ok((None, ch)) => {
            for k in 0..6 {
                for s in 0..3 {
                    out.changed[k][s] += ch[k][s];
                }
            }
        }
        Ok((Some((_i, _op, m)), _)) if m.what == "both-panicked" => {
            out.both_panicked += 1;
        }
        Ok((Some((i, op, m)), _)) => {
            // the replay needs the operations up to the one that went wrong, not the rest of the case
            let upto = if i == usize::MAX { all.len() } else { (setup.len() + i + 1).min(all.len()) };
            let all = &all[..upto];
            if out.violations.len() < 3000 {
                out.violations.push((
                    format!("C18|{}|op={}|{}", set_name(D::SET), op_class(&op), m.what),
                    format!("{} after [{}]: {}", op.show(), all[..all.len().min(40)].join(" "), m.detail),
                    J::obj()
                        .with("kind", J::s("kbd-ops"))
                        .with("set", J::u(D::SET as u64))
                        .with("layout", J::u(li as u64))
                        .with("ops", J::strs(all.iter().cloned()))
                        .with("expected_last", J::s("identical to three separately used stages"))
                        .with("observed_last", J::s(m.detail.clone())),
                ));
            }
        }
        Err(p) => {
            out.panics += 1;
            out.violations.push((
                format!("C18|{}|panic|{}", set_name(D::SET), panic_sig(&p)),
                format!("operation sequence [{}] panicked: {}", all[..all.len().min(40)].join(" "), p),
                J::obj().with("kind", J::s("kbd-ops")).with("set", J::u(D::SET as u64)).with("layout", J::u(li as u64)).with("ops", J::strs(all.iter().cloned())),
            ));
        }
    }
}

fn merge(a: &mut Out, b: Out) {
    a.both_panicked += b.both_panicked;
    a.ops += b.ops;
    a.cases += b.cases;
    a.panics += b.panics;
    for k in 0..6 {
        a.per_kind[k] += b.per_kind[k];
        for s in 0..3 {
            a.changed[k][s] += b.changed[k][s];
        }
    }
    a.violations.extend(b.violations);
    a.distinct.extend(b.distinct);
}

fn scan_prefixes(set: u8) -> Vec<Vec<KOp>> {
    let p: Vec<Vec<u8>> = if set != 1 {
        vec![vec![], vec![0xE0], vec![0xE1], vec![0xF0], vec![0xE0, 0xF0], vec![0xE1, 0xF0]]
    } else {
        vec![vec![], vec![0xE0], vec![0xE1]]
    };
    p.into_iter().map(|v| v.into_iter().map(KOp::Byte).collect()).collect()
}

/// 64 modifier states (6 momentary + CapsLock pattern) reached by presses.
fn mod_setups() -> Vec<Vec<KOp>> {
    let keys = [KeyCode::LShift, KeyCode::RControl, KeyCode::LAlt, KeyCode::RAltGr, KeyCode::CapsLock, KeyCode::RControl2];
    (0..64u32)
        .map(|mask| {
            let mut v = Vec::new();
            for (i, k) in keys.iter().enumerate() {
                if mask & (1 << i) != 0 {
                    v.push(KOp::Ev(*k, KeyState::Down));
                }
            }
            if mask % 3 == 1 {
                v.push(KOp::Ev(KeyCode::NumpadLock, KeyState::Down));
            }
            if mask % 2 == 1 {
                v.push(KOp::Mode(HandleControl::Ignore));
            }
            v
        })
        .collect()
}

fn bits_of_prefix(n: usize, v: u16) -> Vec<KOp> {
    (0..n).map(|i| KOp::Bit((v >> i) & 1 == 1)).collect()
}

pub fn run<D: Dec>(rep: &mut Report) {
    let set = D::SET;
    let threads = n_threads();
    let thorough = rep.thorough();
    let seed = rep.seed;
    let mut out = Out::default();
    let scp = scan_prefixes(set);
    let mods = mod_setups();

    // all 2047 partial framing states as (len, value)
    let mut partial: Vec<(usize, u16)> = Vec::new();
    for n in 0..=10usize {
        for v in 0..(1u32 << n) {
            partial.push((n, v as u16));
        }
    }
    let partial_nz: Vec<(usize, u16)> = partial.clone();

    // ---------------------------------------------------------------- per-operation sweeps
    let scp2 = scp.clone();
    let mods2 = mods.clone();
    let partial2 = partial_nz.clone();
    let shards = par_map(threads, move |t| {
        let mut out = Out::default();
        let scp = &scp2;
        let mods = &mods2;
        let partial = &partial2;
        let mut case_no = 0usize;
        let mine = |n: &mut usize| -> bool {
            *n += 1;
            *n % threads == t
        };
        // -- add_bit: every partial state × both bits; scancode parked in every state, modifiers in 64 states (strided)
        for (pi, (n, v)) in partial.iter().enumerate() {
            for (si, sp) in scp.iter().enumerate() {
                for bit in [false, true] {
                    if !mine(&mut case_no) {
                        continue;
                    }
                    let mi = (pi * 7 + si * 3 + bit as usize) % mods.len();
                    let mut setup: Vec<KOp> = mods[mi].clone();
                    setup.extend(sp.iter().cloned());
                    setup.extend(bits_of_prefix(*n, *v));
                    run_case::<D>(pi % 10, &setup, &[KOp::Bit(bit)], &mut out);
                    out.distinct.insert((0, (pi * 2 + bit as usize) as u64));
                }
            }
        }
        // -- clear: every partial state, scancode in every state
        for (pi, (n, v)) in partial.iter().enumerate() {
            for (si, sp) in scp.iter().enumerate() {
                if !mine(&mut case_no) {
                    continue;
                }
                let mut setup: Vec<KOp> = mods[(pi + si) % mods.len()].clone();
                setup.extend(sp.iter().cloned());
                setup.extend(bits_of_prefix(*n, *v));
                // after clear, a whole frame must decode as on a fresh framing stage
                let w = encode_frame((pi % 256) as u8);
                let mut checked = vec![KOp::Clear];
                checked.extend((0..11).map(|i| KOp::Bit((w >> i) & 1 == 1)));
                run_case::<D>(pi % 10, &setup, &checked, &mut out);
                out.distinct.insert((4, pi as u64));
            }
        }
        // -- add_word: all 2048 words × every scancode state, framing parked in a (strided) partial state
        for w in 0..2048u16 {
            for (si, sp) in scp.iter().enumerate() {
                let reps = if thorough { 16 } else { 3 };
                for r in 0..reps {
                    if !mine(&mut case_no) {
                        continue;
                    }
                    let (n, v) = partial[(w as usize * 31 + si * 7 + r * 131) % partial.len()];
                    let mut setup: Vec<KOp> = mods[(w as usize + r) % mods.len()].clone();
                    setup.extend(sp.iter().cloned());
                    setup.extend(bits_of_prefix(n, v));
                    run_case::<D>(w as usize % 10, &setup, &[KOp::Word(w)], &mut out);
                    out.distinct.insert((1, w as u64));
                }
            }
        }
        // -- one entry point called k times in a row (an idle-timer driver calling clear(), a stuck line, a repeated byte),
        //    with modifiers held / a prefix pending / a partial frame parked, then every entry point once more
        {
            let setups: Vec<Vec<KOp>> = vec![
                vec![KOp::Ev(KeyCode::LShift, KeyState::Down), KOp::Ev(KeyCode::RControl, KeyState::Down), KOp::Ev(KeyCode::CapsLock, KeyState::Down)],
                vec![KOp::Ev(KeyCode::RAltGr, KeyState::Down), KOp::Byte(0xE0)],
                vec![KOp::Ev(KeyCode::LAlt, KeyState::Down), KOp::Bit(false), KOp::Bit(true), KOp::Bit(true)],
            ];
            let frame = encode_frame(if D::SET == 1 { 0x1E } else { 0x1C });
            let mut probes: Vec<KOp> = vec![KOp::Ev(KeyCode::A, KeyState::Down), KOp::Ev(KeyCode::A, KeyState::Up), KOp::Byte(if D::SET == 1 { 0x1E } else { 0x1C }), KOp::Word(frame)];
            probes.extend((0..11).map(|i| KOp::Bit((frame >> i) & 1 == 1)));
            probes.push(KOp::Ev(KeyCode::Key1, KeyState::Down));
            let reps: [(KOp, &[usize]); 6] = [
                (KOp::Clear, &[1, 2, 10, 100, 199, 200, 201, 255, 256, 257, 1000, 65_535, 65_536, 70_000]),
                (KOp::Byte(0xE0), &[2, 10, 255, 256, 257, 1000, 70_000]),
                (KOp::Bit(true), &[11, 12, 255, 256, 257, 1000, 2816]),
                (KOp::Word(0x7FF), &[2, 255, 256, 257, 1000]),
                (KOp::Mode(HandleControl::Ignore), &[2, 255, 256, 257, 1000]),
                (KOp::Ev(KeyCode::F1, KeyState::Up), &[2, 255, 256, 257, 1000]),
            ];
            for (si, setup) in setups.iter().enumerate() {
                for (op, ks) in reps.iter() {
                    for k in ks.iter() {
                        if !mine(&mut case_no) {
                            continue;
                        }
                        let mut checked: Vec<KOp> = vec![*op; *k];
                        checked.extend(probes.iter().cloned());
                        run_case::<D>((si + k) % 10, setup, &checked, &mut out);
                        out.distinct.insert((6, (si * 100_000 + k) as u64));
                    }
                }
            }
        }
        // -- a rejected frame k times (an undriven or stuck line, a glitching cable), then EVERY byte's valid frame and a key:
        //    with modifiers held and a lock set, over add_word and over add_bit – what the framing stage rejects must never
        //    reach the other two stages, whichever byte comes next (a re-plug / self-test "detector" in the Keyboard would)
        {
            let setup: Vec<KOp> = vec![KOp::Ev(KeyCode::LShift, KeyState::Down), KOp::Ev(KeyCode::RControl, KeyState::Down), KOp::Ev(KeyCode::LAlt, KeyState::Down), KOp::Ev(KeyCode::CapsLock, KeyState::Down), KOp::Ev(KeyCode::NumpadLock, KeyState::Down)];
            let good = encode_frame(0xAA);
            // all ones, all zeros, wrong parity, start bit 1, stop bit 0
            let rejected: [u16; 5] = [0x7FF, 0x000, good ^ 0x200, good | 1, good & 0x3FF];
            for (ri, rw) in rejected.iter().enumerate() {
                for k in [1usize, 2, 3, 4, 5, 8, 16] {
                    for serial_rej in [false, true] {
                        for serial_good in [false, true] {
                            for byte in 0..=255u8 {
                                if !mine(&mut case_no) {
                                    continue;
                                }
                                let mut checked: Vec<KOp> = Vec::new();
                                for _ in 0..k {
                                    if serial_rej {
                                        checked.extend((0..11).map(|i| KOp::Bit((rw >> i) & 1 == 1)));
                                    } else {
                                        checked.push(KOp::Word(*rw));
                                    }
                                }
                                let f = encode_frame(byte);
                                if serial_good {
                                    checked.extend((0..11).map(|i| KOp::Bit((f >> i) & 1 == 1)));
                                } else {
                                    checked.push(KOp::Word(f));
                                }
                                checked.push(KOp::Ev(KeyCode::A, KeyState::Down));
                                run_case::<D>((ri + k + byte as usize) % 10, &setup, &checked, &mut out);
                                out.distinct.insert((7, ((ri * 100 + k) * 4 + serial_rej as usize * 2 + serial_good as usize) as u64 * 256 + byte as u64));
                            }
                        }
                    }
                }
            }
        }
        // -- add_word takes a u16: all 65 536 values (the five bits above the frame included), contexts strided
        for w in 0..=u16::MAX {
            if w < 2048 || !mine(&mut case_no) {
                continue;
            }
            let sp = &scp[w as usize % scp.len()];
            let (n, v) = partial[(w as usize * 13) % partial.len()];
            let mut setup: Vec<KOp> = sp.clone();
            setup.extend(bits_of_prefix(n, v));
            // the word, then a plain key over the same entry point: a stranded prefix shows in the second
            run_case::<D>(w as usize % 10, &setup, &[KOp::Word(w), KOp::Word(encode_frame(0x1C) | (w & 0xF800))], &mut out);
            out.distinct.insert((5, w as u64));
        }
        // -- add_word with framing parked in *every* partial state (sampled words of each class)
        for (pi, (n, v)) in partial.iter().enumerate() {
            for (wi, w) in [encode_frame(0x1C), encode_frame(0xE0), 0x7FFu16, 0x000, encode_frame(0xF0) ^ 0x200, encode_frame(0x12) ^ 0x400].iter().enumerate() {
                if !mine(&mut case_no) {
                    continue;
                }
                let sp = &scp[(pi + wi) % scp.len()];
                let mut setup: Vec<KOp> = sp.clone();
                setup.extend(bits_of_prefix(*n, *v));
                run_case::<D>(pi % 10, &setup, &[KOp::Word(*w)], &mut out);
            }
        }
        // -- add_byte: all 256 bytes × every scancode state × every partial framing state (strided in quick)
        for b in 0..=255u8 {
            for (si, sp) in scp.iter().enumerate() {
                let stride = if thorough { 1 } else { 16 };
                let mut pi = (b as usize + si) % stride;
                while pi < partial.len() {
                    if mine(&mut case_no) {
                        let (n, v) = partial[pi];
                        let mut setup: Vec<KOp> = mods[(pi + b as usize) % mods.len()].clone();
                        setup.extend(sp.iter().cloned());
                        setup.extend(bits_of_prefix(n, v));
                        run_case::<D>(pi % 10, &setup, &[KOp::Byte(b)], &mut out);
                        out.distinct.insert((2, (si * 256 + b as usize) as u64));
                    }
                    pi += stride;
                }
            }
        }
        // -- process_keyevent / set_ctrl_handling: 64 modifier states × every key × 3 states, framing+scancode parked non-initial
        for (mi, ms) in mods.iter().enumerate() {
            for (ki, k) in NAMED_KEYS.iter().enumerate() {
                for (sti, st) in STATES.iter().enumerate() {
                    if !mine(&mut case_no) {
                        continue;
                    }
                    let sp = &scp[(mi + ki) % scp.len()];
                    let (n, v) = partial[(mi * 37 + ki * 11 + sti) % partial.len()];
                    let mut setup: Vec<KOp> = ms.clone();
                    setup.extend(sp.iter().cloned());
                    setup.extend(bits_of_prefix(n, v));
                    let checked = [KOp::Ev(*k, *st), KOp::Mode(if ki % 2 == 0 { HandleControl::Ignore } else { HandleControl::MapLettersToUnicode }), KOp::Ev(*k, *st)];
                    run_case::<D>(ki % 10, &setup, &checked, &mut out);
                    out.distinct.insert((3, ((mi * 124 + ki) * 3 + sti) as u64));
                }
            }
        }
        out
    });
    for s in shards {
        merge(&mut out, s);
    }
    rep.count(&format!("{}_per_operation_cases", set_name(set)), out.cases);

    // ---------------------------------------------------------------- hostile interleavings of all six operations with line noise
    let total: u64 = if thorough { 100_000_000 } else { 500_000 };
    let hist_len = 400u64;
    let n_hist = total / hist_len;
    let shards = par_map(threads, move |t| {
        let mut out = Out::default();
        let tset = if set == 1 { 1 } else { 2 };
        let r = ref_for(tset);
        let typist = Typist::new(tset, &r);
        let mut h = t as u64;
        while h < n_hist {
            let mut rng = Rng::fork(seed, 0xC18_0000 + (h << 2) + set as u64);
            let this_len = if h < 8 { hist_len as usize * 100 } else { hist_len as usize };
            let ops = hostile_ops(&mut rng, &typist, this_len);
            run_case::<D>((h % 10) as usize, &[], &ops, &mut out);
            h += threads as u64;
        }
        out
    });
    let mut hostile_cases = 0;
    for s in shards {
        hostile_cases += s.cases;
        merge(&mut out, s);
    }
    rep.count(&format!("{}_hostile_interleavings", set_name(set)), hostile_cases);

    rep.evaluations += out.ops;
    rep.panics += out.panics;
    rep.count(&format!("{}_cases_ended_because_both_sides_panicked_alike(C08_matter)", set_name(set)), out.both_panicked);
    for k in 0..6 {
        rep.count(&format!("{}_checked_{}", set_name(set), KOP_NAMES[k]), out.per_kind[k]);
        rep.require(&format!("{} {} operations checked", set_name(set), KOP_NAMES[k]), out.per_kind[k], 100);
    }
    let mut matrix = J::obj();
    for k in 0..6 {
        matrix.set(
            KOP_NAMES[k],
            J::obj()
                .with("changed_framing", J::u(out.changed[k][0]))
                .with("changed_scancode", J::u(out.changed[k][1]))
                .with("changed_event", J::u(out.changed[k][2])),
        );
    }
    rep.set_extra(&format!("{}_stage_change_matrix", set_name(set)), matrix);
    for (s, w, r) in out.violations {
        rep.violate(s, w, r);
    }
    rep.distinct_nontrivial += out.distinct.len() as u64;
}

/// Random interleaving of all six operations; bytes come from typing with faults, bits from frames with line noise.
pub fn hostile_ops(rng: &mut Rng, typist: &Typist, len: usize) -> Vec<KOp> {
    let mut ops = Vec::with_capacity(len + 16);
    let bytes = typist.faulty_typing(rng, len);
    let mut bi = 0usize;
    while ops.len() < len {
        let b = bytes[bi % bytes.len()];
        bi += 1;
        match rng.below(20) {
            0..=5 => ops.push(KOp::Byte(b)),
            6..=9 => {
                let mut w = encode_frame(b);
                match rng.below(8) {
                    0 => w ^= 1 << rng.below(11),
                    1 => w = rng.below(2048) as u16,
                    2 => w |= (rng.below(32) as u16) << 11,
                    3 => w = rng.below(65_536) as u16,
                    _ => {}
                }
                ops.push(KOp::Word(w));
            }
            10..=14 => {
                let mut w = encode_frame(b);
                if rng.below(6) == 0 {
                    w ^= 1 << rng.below(11);
                }
                let mut bits: Vec<bool> = (0..11).map(|i| (w >> i) & 1 == 1).collect();
                match rng.below(12) {
                    0 => {
                        bits.remove(rng.below(11) as usize);
                    }
                    1 => bits.insert(rng.below(11) as usize, rng.bit()),
                    2 => bits.truncate(rng.below(11) as usize),
                    _ => {}
                }
                for (i, bit) in bits.iter().enumerate() {
                    ops.push(KOp::Bit(*bit));
                    // other entry points interleaved in the middle of a frame
                    if rng.below(30) == 0 {
                        match rng.below(4) {
                            0 => ops.push(KOp::Clear),
                            1 => ops.push(KOp::Byte(rng.byte())),
                            2 => ops.push(KOp::Ev(*rng.pick(&MOD_KEYS), *rng.pick(&STATES))),
                            _ => ops.push(KOp::Word(encode_frame(rng.byte()))),
                        }
                    }
                    let _ = i;
                }
            }
            15..=17 => {
                let k = if rng.bit() { *rng.pick(&MOD_KEYS) } else { *rng.pick(&NAMED_KEYS) };
                ops.push(KOp::Ev(k, *rng.pick(&STATES)));
            }
            18 => ops.push(KOp::Clear),
            _ => ops.push(KOp::Mode(*rng.pick(&MODES))),
        }
    }
    ops
}

pub fn run_both(rep: &mut Report) {
    run::<ScancodeSet2>(rep);
    run::<ScancodeSet1>(rep);
    // the scancode stage is a type parameter: the same must hold over a user-defined set that returns every kind of result
    run::<ScriptedSet>(rep);
    rep.exhaustive = Some(false);
    rep.rule = "differential: every operation is applied to a real Keyboard and to a separately owned real Ps2Decoder, ScancodeSetN and EventDecoder wired as the statement says; results must be equal, the Keyboard's Debug rendering must contain each separate stage's rendering after every operation, and the rendering of a stage the operation does not feed must be unchanged; \
                per-operation sweeps over the fed stage's state × input with the other stages parked in non-initial states (all 2047 partial frames, all 6/3 prefix states, 64 modifier states), plus seeded hostile interleavings of all six operations with line noise, both scancode sets; \
                distinct_nontrivial = distinct (operation, fed-stage state/input) cases driven in the sweeps"
        .into();
    rep.assumptions.push("the three public stage types used separately are the specification of the combined object (their own behaviour is the subject of C01–C07, C04, C14)".into());
    rep.assumptions.push("Debug renderings of Ps2Decoder, ScancodeSetN (hook) and EventDecoder show their complete state".into());
    let mut tw: Twin<ScancodeSet2> = Twin::new(0, HandleControl::MapLettersToUnicode);
    let mut ch = [[0u64; 3]; 6];
    for op in [KOp::Byte(0xE0), KOp::Bit(false), KOp::Bit(true), KOp::Word(0x7FF), KOp::Ev(KeyCode::LShift, KeyState::Down), KOp::Clear] {
        let m = tw.apply(&op, &mut ch);
        rep.sample_str(format!("{} → {} ; Keyboard now {:?}", op.show(), if m.is_none() { "agrees with separate stages" } else { "MISMATCH" }, tw.kb));
    }
    let _: BTreeMap<u8, u8> = BTreeMap::new();
}
