//! C04 — reported modifier state is exactly the history of modifier key events;
//! C14 — one decoded key per press, none per release, via the live layout / modifiers / mode.

use crate::json::J;
use crate::keys::*;
use crate::layouts::*;
use crate::model::ModModel;
use crate::report::*;
use crate::rng::Rng;
use crate::scan::{n_threads, par_map};
use pc_keyboard::{DecodedKey, EventDecoder, HandleControl, KeyCode, KeyEvent, KeyState, Keyboard, KeyboardLayout, ScancodeSet1, ScancodeSet2};
use std::collections::{BTreeMap, BTreeSet, VecDeque};

const BFS_CAP: usize = 200_000;

#[derive(Clone, Copy, Debug, PartialEq, Eq)]
pub enum Op {
    Ev(KeyCode, KeyState),
    Mode(HandleControl),
    NewLayout,
    /// a further switch of `Keyboard` that the tree offers (found by build.rs): `extra_kb_op_names()[i]`
    Extra(usize),
}
impl Op {
    pub fn show(&self) -> String {
        match self {
            Op::Ev(k, s) => format!("{}({:?})", state_str(*s), k),
            Op::Mode(h) => format!("set_ctrl_handling({})", mode_str(*h)),
            Op::NewLayout => "change_layout(new instance)".into(),
            Op::Extra(i) => extra_kb_op_names().get(*i).copied().unwrap_or("?").to_string(),
        }
    }
}
fn ops_json(ops: &[Op]) -> J {
    J::strs(ops.iter().map(|o| o.show()))
}

/// Read the nine flags and the mode out of a `Debug` rendering (EventDecoder has no getter).
pub fn parse_debug_mods(s: &str) -> Option<(u16, HandleControl)> {
    let mut bits = 0u16;
    for (i, n) in MOD_NAMES.iter().enumerate() {
        let pat = format!(" {}: ", n);
        let p = s.find(&pat)? + pat.len();
        if s[p..].starts_with("true") {
            bits |= 1 << i;
        } else if !s[p..].starts_with("false") {
            return None;
        }
    }
    // the mode is found by its variant name, not by the (private) field name in front of it
    let map = s.matches("MapLettersToUnicode").count();
    let ign = s.matches("Ignore").count();
    let mode = match (map, ign) {
        (1, 0) => HandleControl::MapLettersToUnicode,
        (0, 1) => HandleControl::Ignore,
        _ => return None,
    };
    Some((bits, mode))
}

fn all_event_ops(uni: &[KeyCode]) -> Vec<Op> {
    let mut v = Vec::new();
    for k in uni {
        for s in STATES {
            v.push(Op::Ev(*k, s));
        }
    }
    v.push(Op::Mode(HandleControl::MapLettersToUnicode));
    v.push(Op::Mode(HandleControl::Ignore));
    for i in 0..extra_kb_op_names().len() {
        v.push(Op::Extra(i));
    }
    v
}

type Kb = Keyboard<RecLayout, ScancodeSet2>;
const INITIAL_MODE: HandleControl = HandleControl::MapLettersToUnicode;

fn kb_fresh() -> (Kb, std::rc::Rc<std::cell::RefCell<RecLog>>) {
    let (lay, log) = rec_layout(0);
    (Keyboard::new(ScancodeSet2::new(), lay, INITIAL_MODE), log)
}
fn kb_apply(kb: &mut Kb, op: &Op) -> Option<DecodedKey> {
    match op {
        Op::Ev(k, s) => kb.process_keyevent(KeyEvent::new(*k, *s)),
        Op::Mode(h) => {
            kb.set_ctrl_handling(*h);
            None
        }
        Op::NewLayout => None,
        Op::Extra(i) => {
            extra_kb_op!(kb, *i);
            None
        }
    }
}
fn model_apply(m: &mut ModModel, mode: &mut HandleControl, op: &Op) {
    match op {
        Op::Ev(k, s) => m.step(*k, *s),
        Op::Mode(h) => *mode = *h,
        Op::NewLayout | Op::Extra(_) => {}
    }
}

/// BFS closure of the real decoder's state graph; state identity = Debug rendering of the Keyboard.
fn closure(uni: &[KeyCode], rep: &mut Report) -> BTreeMap<String, Vec<Op>> {
    // State identity = Debug rendering of the whole Keyboard, so that any hidden flag is explored too.  If that graph
    // is larger than RENDER_CAP (e.g. a tree that carries a counter which has no influence on behaviour), fall back
    // to the identity the property talks about – (reported modifiers, Ctrl mode) – which has at most 1024 values.
    const RENDER_CAP: usize = 4096;
    if let Some(st) = closure_by(uni, RENDER_CAP, &|kb: &Kb| format!("{:?}", kb)) {
        return st;
    }
    rep.notes.push(format!(
        "the decoder's Debug rendering takes more than {} values (state beyond modifiers and mode); closure taken over (get_modifiers(), get_ctrl_handling()) instead, hidden state is exercised by the hostile histories",
        RENDER_CAP
    ));
    closure_by(uni, BFS_CAP, &|kb: &Kb| format!("{}|{}", mods_str(bits_from_mods(kb.get_modifiers())), mode_str(kb.get_ctrl_handling()))).unwrap_or_default()
}

fn closure_by(uni: &[KeyCode], cap: usize, ident: &dyn Fn(&Kb) -> String) -> Option<BTreeMap<String, Vec<Op>>> {
    // BFS ops: only the nine modifier keys can possibly matter for reachability, but all keys are
    // driven in the transition sweep; here every op is tried so that a hidden dependency on another key is found too.
    let ops = all_event_ops(uni);
    let mut states: BTreeMap<String, Vec<Op>> = BTreeMap::new();
    let mut queue: VecDeque<Vec<Op>> = VecDeque::new();
    let (kb0, _) = kb_fresh();
    states.insert(ident(&kb0), vec![]);
    queue.push_back(vec![]);
    while let Some(path) = queue.pop_front() {
        for op in &ops {
            let r = guarded(|| {
                let (mut kb, _) = kb_fresh();
                for p in &path {
                    kb_apply(&mut kb, p);
                }
                kb_apply(&mut kb, op);
                ident(&kb)
            });
            if let Ok(name) = r {
                if !states.contains_key(&name) {
                    if states.len() >= cap {
                        return None;
                    }
                    let mut p2 = path.clone();
                    p2.push(*op);
                    states.insert(name, p2.clone());
                    queue.push_back(p2);
                }
            }
        }
    }
    Some(states)
}


// =================================================================== novelty-guided exploration (see novelty.rs)

/// C04's oracle riding on a real Keyboard over the first shipped layout.
struct S04 {
    kb: Keyboard<DynLayout, ScancodeSet2>,
    m: ModModel,
    mode: HandleControl,
}
impl crate::novelty::Subject for S04 {
    type Op = Op;
    fn fresh() -> Self {
        S04 { kb: Keyboard::new(ScancodeSet2::new(), dyn_layout(0, 0), INITIAL_MODE), m: ModModel::new(), mode: INITIAL_MODE }
    }
    fn apply(&mut self, op: &Op) -> Option<(String, String)> {
        let (pre, pre_mode) = (self.m.bits, self.mode);
        match op {
            Op::Ev(k, s) => {
                let _ = self.kb.process_keyevent(KeyEvent::new(*k, *s));
            }
            Op::Mode(h) => self.kb.set_ctrl_handling(*h),
            Op::NewLayout => {}
            Op::Extra(i) => extra_kb_op!(self.kb, *i),
        }
        model_apply(&mut self.m, &mut self.mode, op);
        let post = bits_from_mods(self.kb.get_modifiers());
        if post != self.m.bits || self.kb.get_ctrl_handling() != self.mode {
            let want = self.m.bits;
            let sig = c04_sig(pre, pre_mode, op, want, &mods_str(post));
            // keep following the real record, so that one defect is reported once and not at every later step
            self.m.bits = post;
            self.mode = self.kb.get_ctrl_handling();
            return Some((sig, format!("event {}: get_modifiers() reports {} – the record of modifier events says {}", op.show(), mods_str(post), mods_str(want))));
        }
        None
    }
    fn render(&self) -> String {
        format!("{:?}", self.kb)
    }
}

/// C14's oracle riding on a real Keyboard over the first shipped layout: the differential against a direct call.
struct S14 {
    kb: Keyboard<DynLayout, ScancodeSet2>,
    direct: Box<dyn KeyboardLayout>,
}
impl crate::novelty::Subject for S14 {
    type Op = Op;
    fn fresh() -> Self {
        S14 { kb: Keyboard::new(ScancodeSet2::new(), dyn_layout(0, 0), INITIAL_MODE), direct: bare_dyn(0) }
    }
    fn apply(&mut self, op: &Op) -> Option<(String, String)> {
        match op {
            Op::Mode(h) => {
                self.kb.set_ctrl_handling(*h);
                None
            }
            Op::NewLayout => None,
            Op::Extra(i) => {
                extra_kb_op!(self.kb, *i);
                None
            }
            Op::Ev(k, s) => {
                let pre = self.kb.get_modifiers().clone();
                let got = self.kb.process_keyevent(KeyEvent::new(*k, *s));
                let want = if *s != KeyState::Down {
                    None
                } else if MOD_KEYS.contains(k) {
                    Some(DecodedKey::RawKey(if *k == KeyCode::NumpadLock && pre.rctrl2 { KeyCode::PauseBreak } else { *k }))
                } else {
                    Some(self.direct.map_keycode(*k, &pre, self.kb.get_ctrl_handling()))
                };
                if got != want {
                    return Some((
                        format!("C14|explored|state={}|event={}|want={}|got={}", mods_str(bits_from_mods(&pre)), op.show(), odk_str(&want), if want.is_none() { "a-decoded-key".to_string() } else { odk_str(&got) }),
                        format!("event {} with modifiers {} returned {}; the property requires {}", op.show(), mods_str(bits_from_mods(&pre)), odk_str(&got), odk_str(&want)),
                    ));
                }
                None
            }
        }
    }
    fn render(&self) -> String {
        format!("{:?}", self.kb)
    }
}

/// Counters in static memory behind the event decoder (hidden.rs), driven across their wrap-arounds while a cyclic hostile
/// event history runs under the subject's oracle.  Single-threaded; called before the monitor starts any worker.
fn event_static_counter_wraps<S: crate::novelty::Subject<Op = Op>>(rep: &mut Report, uni: &[KeyCode]) {
    let mut rng = Rng::fork(rep.seed, 0x57A7_1C);
    let ops: Vec<Op> = (0..997).map(|_| random_op(&mut rng, uni, false)).collect();
    let mut subject = S::fresh();
    let mut i = 0usize;
    let mut step = || -> Option<(String, String)> {
        let op = ops[i];
        i = (i + 1) % ops.len();
        match guarded(|| subject.apply(&op)) {
            Ok(v) => v.map(|(sig, what)| (sig.replacen('|', "|static-counter-wrap|", 1), what)),
            // a panic is C08's matter; go on with a fresh object
            Err(_) => {
                subject = S::fresh();
                None
            }
        }
    };
    crate::hidden::counter_wraps(rep, "Keyboard::process_keyevent", &mut step, 2000);
}

/// The runs of key codes spelled out in the tree's source (mon_through::magic_key_histories), under the subject's oracle.
fn magic_histories<S: crate::novelty::Subject<Op = Op>>(rep: &mut Report) {
    let hs = crate::mon_through::magic_key_histories();
    let mut n = 0u64;
    for h in hs.iter() {
        let ops: Vec<Op> = h
            .iter()
            .map(|o| match o {
                crate::mon_through::HOp::Ev(k, s) => Op::Ev(*k, *s),
                crate::mon_through::HOp::Mode(m) => Op::Mode(MODES[*m]),
                crate::mon_through::HOp::Extra(x) => Op::Extra(*x),
            })
            .collect();
        let r = guarded(|| {
            let mut s = S::fresh();
            for (i, op) in ops.iter().enumerate() {
                if let Some(v) = s.apply(op) {
                    return Some((i, v));
                }
            }
            None
        });
        n += ops.len() as u64;
        if let Ok(Some((i, (sig, what)))) = r {
            let shown: Vec<String> = ops[..=i].iter().map(|o| o.show()).collect();
            let (want, got) = (sig.split("|want=").nth(1).and_then(|x| x.split("|got=").next()).unwrap_or("").to_string(), sig.split("|got=").nth(1).unwrap_or("").to_string());
            rep.violate(
                sig,
                format!("after [{}]: {}", shown[..i].join(", "), what),
                J::obj().with("kind", J::s("events")).with("layout", J::s(layout_name(0))).with("initial_mode", J::s("Map")).with("ops", J::strs(shown)).with("expected_last", J::s(want)).with("observed_last", J::s(got)),
            );
        }
    }
    rep.evaluations += n;
    rep.count("events_in_histories_built_round_key_runs_spelled_out_in_the_source", n);
}

/// Streamed soaks at the event level under the subject's oracle: with nothing / a Shift / a Ctrl / AltGr held / CapsLock on,
/// two keys pressed alternately N times without release, and one key held for N repeats, then another key, the release and
/// a fresh press (N = 2^22 quick, 2^24 thorough: beyond any "after a hundred thousand / a million of these" heuristic).
fn event_soaks<S: crate::novelty::Subject<Op = Op>>(rep: &mut Report) {
    let n: u64 = if light() { 1 << 17 } else if rep.thorough() { 1 << 24 } else { 1 << 22 };
    let ctxs: [&[Op]; 5] = [
        &[],
        &[Op::Ev(KeyCode::LShift, KeyState::Down)],
        &[Op::Ev(KeyCode::RControl, KeyState::Down)],
        &[Op::Ev(KeyCode::RAltGr, KeyState::Down)],
        &[Op::Ev(KeyCode::CapsLock, KeyState::Down)],
    ];
    let shapes = ["two keys pressed alternately without release", "one key held, then another key, the release and a fresh press"];
    let jobs: Vec<(usize, usize)> = (0..ctxs.len()).flat_map(|c| (0..2).map(move |s| (c, s))).collect();
    let found: Vec<Option<(usize, usize, u64, String, String)>> = std::thread::scope(|sc| {
        let hs: Vec<_> = jobs
            .iter()
            .map(|(c, sh)| {
                let (c, sh) = (*c, *sh);
                let ctx = ctxs[c];
                sc.spawn(move || {
                    guarded(|| {
                        let mut s = S::fresh();
                        for op in ctx.iter() {
                            let _ = s.apply(op);
                        }
                        let (a, b) = (KeyCode::Q, KeyCode::Oem4);
                        for i in 0..n {
                            let op = if sh == 0 { Op::Ev(if i % 2 == 0 { a } else { b }, KeyState::Down) } else { Op::Ev(a, KeyState::Down) };
                            if let Some((sig, what)) = s.apply(&op) {
                                return Some((c, sh, i, sig, what));
                            }
                        }
                        let tail = [Op::Ev(b, KeyState::Down), Op::Ev(b, KeyState::Up), Op::Ev(a, KeyState::Up), Op::Ev(a, KeyState::Down), Op::Ev(a, KeyState::Up), Op::Ev(KeyCode::Key7, KeyState::Down), Op::Ev(KeyCode::LShift, KeyState::Up), Op::Ev(a, KeyState::Down)];
                        for (j, op) in tail.iter().enumerate() {
                            if let Some((sig, what)) = s.apply(op) {
                                return Some((c, sh, n + j as u64, sig, what));
                            }
                        }
                        None
                    })
                    .unwrap_or(None)
                })
            })
            .collect();
        hs.into_iter().map(|h| h.join().unwrap_or(None)).collect()
    });
    rep.evaluations += n * jobs.len() as u64;
    rep.count("events_in_streamed_soaks", n * jobs.len() as u64);
    for f in found.into_iter().flatten() {
        let (c, sh, i, sig, what) = f;
        let held: Vec<String> = ctxs[c].iter().map(|o| o.show()).collect();
        rep.violate(
            sig.replacen('|', "|soak|", 1),
            format!("{} (after [{}]), event #{} of the soak: {}", shapes[sh], held.join(", "), i + 1, what),
            J::obj().with("kind", J::s("event-soak")).with("context", J::strs(held)).with("shape", J::s(shapes[sh])).with("events_before", J::u(i)),
        );
    }
}

fn run_exploration<S: crate::novelty::Subject<Op = Op>>(rep: &mut Report, uni: &[KeyCode]) {
    let budget = if rep.thorough() { 400_000 } else { 30_000 };
    let ex = crate::novelty::explore::<S>(all_event_ops(uni), |o: &Op| o.show(), budget, n_threads());
    rep.evaluations += ex.children_judged;
    rep.count("explored_states_seen(novelty_search)", ex.states_seen);
    rep.count("explored_states_expanded", ex.states_expanded);
    rep.count("explored_children_judged", ex.children_judged);
    rep.count("explored_max_depth", ex.max_depth as u64);
    rep.count("explored_leaf_value_pairs", ex.leaf_value_pairs);
    rep.count("explored_children_aborted_by_a_panic(C08_matter)", ex.children_aborted_by_a_panic);
    if ex.budget_exhausted {
        rep.notes.push(format!("novelty search: the budget of {} expanded states was used up (the rendering has many-valued fields); depth reached {}", budget, ex.max_depth));
    }
    if !ex.sample_deep_state.is_empty() {
        rep.sample_str(format!("deepest state that showed a new pair of field values: {}", ex.sample_deep_state.chars().take(600).collect::<String>()));
    }
    rep.require("children judged in the novelty search", ex.children_judged, 10_000);
    for (sig, what, path) in ex.violations {
        let what = format!("after [{}]: {}", path[..path.len() - 1].join(", "), what);
        let (want, got) = (sig.split("|want=").nth(1).and_then(|x| x.split("|got=").next()).unwrap_or("").to_string(), sig.split("|got=").nth(1).unwrap_or("").to_string());
        rep.violate(
            sig,
            what,
            J::obj().with("kind", J::s("events")).with("layout", J::s(layout_name(0))).with("initial_mode", J::s("Map")).with("ops", J::strs(path)).with("expected_last", J::s(want)).with("observed_last", J::s(got)),
        );
    }
}

// =================================================================== C04

fn c04_sig(pre: u16, mode: HandleControl, op: &Op, want: u16, got: &str) -> String {
    format!("C04|state={}|mode={}|event={}|want={}|got={}", mods_str(pre), mode_str(mode), op.show(), mods_str(want), got)
}

pub fn run_c04(rep: &mut Report) {
    let uni = universe();
    event_static_counter_wraps::<S04>(rep, &uni);
    let states = closure(&uni, rep);
    rep.states = Some(states.len() as u64);
    rep.count("decoder_states_found_by_bfs", states.len() as u64);
    rep.count("max_bfs_depth", states.values().map(|p| p.len()).max().unwrap_or(0) as u64);
    let ops = all_event_ops(&uni);
    let mut transitions = 0u64;
    let mut changed: BTreeSet<(u16, usize, usize)> = BTreeSet::new(); // (pre-state, mode, op index) that changed a flag
    let mut model_states: BTreeSet<(u16, usize)> = BTreeSet::new();
    let state_list: Vec<(String, Vec<Op>)> = states.iter().map(|(k, v)| (k.clone(), v.clone())).collect();
    let threads = n_threads();
    let ops2 = ops.clone();
    let shards = par_map(threads, move |t| {
        let mut viol: Vec<(String, String, J)> = Vec::new();
        let mut n = 0u64;
        let mut panics = 0u64;
        let mut changed: Vec<(u16, usize, usize)> = Vec::new();
        let mut mstates: Vec<(u16, usize)> = Vec::new();
        let mut probes = 0u64;
        let mut i = t;
        while i < state_list.len() {
            let path = &state_list[i].1;
            // model state along the path
            let mut m0 = ModModel::new();
            let mut mode0 = INITIAL_MODE;
            for p in path {
                model_apply(&mut m0, &mut mode0, p);
            }
            mstates.push((m0.bits, mode_idx(mode0)));
            for (oi, op) in ops2.iter().enumerate() {
                let r = guarded(|| {
                    let (mut kb, log) = kb_fresh();
                    for p in path {
                        kb_apply(&mut kb, p);
                    }
                    let pre = bits_from_mods(kb.get_modifiers());
                    kb_apply(&mut kb, op);
                    let post = bits_from_mods(kb.get_modifiers());
                    let post_mode = kb.get_ctrl_handling();
                    // what a layout is actually handed on the next ordinary press
                    let n0 = log.borrow().calls.len();
                    let _ = kb.process_keyevent(KeyEvent::new(KeyCode::A, KeyState::Down));
                    let seen = log.borrow().calls.get(n0).map(|c| (c.mods, c.mode));
                    let after_probe = bits_from_mods(kb.get_modifiers());
                    (pre, post, post_mode, seen, after_probe)
                });
                n += 1;
                let mut m = m0;
                let mut mode = mode0;
                model_apply(&mut m, &mut mode, op);
                let mut full = path.clone();
                full.push(*op);
                match r {
                    Err(p) => {
                        panics += 1;
                        viol.push((
                            c04_sig(m0.bits, mode0, op, m.bits, &format!("PANIC({})", panic_sig(&p))),
                            format!("event history {:?} panicked: {}", full.iter().map(|o| o.show()).collect::<Vec<_>>(), p),
                            J::obj().with("kind", J::s("events")).with("ops", ops_json(&full)),
                        ));
                    }
                    Ok((pre, post, post_mode, seen, after_probe)) => {
                        if pre != post {
                            changed.push((pre, mode_idx(mode0), oi));
                        }
                        if post != m.bits || post_mode != mode {
                            viol.push((
                                c04_sig(m0.bits, mode0, op, m.bits, &mods_str(post)),
                                format!(
                                    "after history [{}] (modifiers {}), event {}: get_modifiers() reports {} – the record of modifier events says {}",
                                    path.iter().map(|o| o.show()).collect::<Vec<_>>().join(", "),
                                    mods_str(pre),
                                    op.show(),
                                    mods_str(post),
                                    mods_str(m.bits)
                                ),
                                J::obj()
                                    .with("kind", J::s("events"))
                                    .with("ops", ops_json(&full))
                                    .with("expected_last", J::s(mods_str(m.bits)))
                                    .with("observed_last", J::s(mods_str(post))),
                            ));
                        }
                        // what the layout is handed is C14's subject; here it is only counted
                        if let Some((smods, _smode)) = seen {
                            if smods == post && after_probe == post {
                                probes += 1;
                            }
                        }
                    }
                }
            }
            i += threads;
        }
        (viol, n, panics, changed, mstates, probes)
    });
    let mut probes = 0;
    for (viol, n, panics, ch, ms, pr) in shards {
        transitions += n;
        rep.panics += panics;
        probes += pr;
        for v in viol {
            rep.violate(v.0, v.1, v.2);
        }
        changed.extend(ch);
        model_states.extend(ms);
    }
    rep.transitions = Some(transitions);
    rep.evaluations += transitions + probes;
    rep.count("transitions_compared_with_model", transitions);
    rep.count("probe_presses_checked", probes);
    rep.count("transitions_that_changed_a_flag", changed.len() as u64);
    rep.count("distinct_model_states_covered", model_states.len() as u64);
    rep.exhaustive = Some(states.len() < BFS_CAP);
    rep.require("decoder states", states.len() as u64, 1024);
    rep.require("model states covered", model_states.len() as u64, 1024);

    // ---------------------------------------------------------------- change_layout is not a key event: it must leave the record alone
    {
        let mut n = 0u64;
        for (_name, path) in states.iter() {
            let r = guarded(|| {
                let mut dec = EventDecoder::new(NullLayout, INITIAL_MODE);
                for p in path {
                    match p {
                        Op::Ev(k, s) => {
                            let _ = dec.process_keyevent(KeyEvent::new(*k, *s));
                        }
                        Op::Mode(h) => dec.set_ctrl_handling(*h),
                        Op::NewLayout | Op::Extra(_) => {}
                    }
                }
                let before = parse_debug_mods(&format!("{:?}", dec));
                dec.change_layout(NullLayout);
                let after = parse_debug_mods(&format!("{:?}", dec));
                (before, after, dec.get_ctrl_handling())
            });
            n += 1;
            rep.evaluations += 1;
            if let Ok((Some(b), Some(a_), mode_now)) = r {
                let after = Some(a_);
                let mut m = ModModel::new();
                let mut md = INITIAL_MODE;
                for p in path {
                    model_apply(&mut m, &mut md, p);
                }
                if after != Some(b) || b.0 != m.bits || mode_now != md {
                    let mut full = path.clone();
                    full.push(Op::NewLayout);
                    rep.violate(
                        format!("C04|state={}|mode={}|event=change_layout|want={}|got={}", mods_str(m.bits), mode_str(md), mods_str(m.bits), after.map(|a| mods_str(a.0)).unwrap_or_else(|| "unparseable".into())),
                        format!(
                            "EventDecoder after [{}]: change_layout() changed the reported modifier record from {} to {:?} (the record of key events says {})",
                            path.iter().map(|o| o.show()).collect::<Vec<_>>().join(", "),
                            mods_str(b.0),
                            after.map(|a| mods_str(a.0)),
                            mods_str(m.bits)
                        ),
                        J::obj().with("kind", J::s("events")).with("ops", ops_json(&full)),
                    );
                }
            }
        }
        rep.count("states_in_which_change_layout_was_checked_to_leave_the_record_alone", n);
    }

    // ---------------------------------------------------------------- novelty-guided exploration, then hostile event histories
    run_exploration::<S04>(rep, &uni);
    magic_histories::<S04>(rep);
    event_soaks::<S04>(rep);
    hostile_histories(rep, &uni);

    rep.distinct_nontrivial = changed.len() as u64;
    rep.rule = "breadth-first closure of the real decoder's state graph (state identity = Debug rendering of the whole Keyboard) through every key × {Down, Up, SingleShot} and both mode setters; \
                from every state (reached by replaying a shortest path on a fresh Keyboard) every event is applied and get_modifiers()/get_ctrl_handling() compared with the modifier-record model, and a probe press checks what a layout is handed; \
                plus seeded hostile event histories on all ten layouts, both scancode-set instantiations and a bare EventDecoder; distinct_nontrivial = distinct (state, mode, event) transitions that changed a flag"
        .into();
    rep.assumptions.push("model = the statement of C04: seven momentary flags follow the last press/release, CapsLock/NumLock toggle on press, NumLock starts on and ignores presses while the hidden Pause-Ctrl is held".into());
    let mut shown = 0;
    for (name, path) in states.iter() {
        if path.len() >= 3 && shown < 3 {
            shown += 1;
            rep.sample_str(format!("state reached by [{}]: {}", path.iter().map(|o| o.show()).collect::<Vec<_>>().join(", "), &name[name.find("modifiers").unwrap_or(0)..]));
        }
    }
}

fn random_op(rng: &mut Rng, uni: &[KeyCode], with_layout_change: bool) -> Op {
    let nx = extra_kb_op_names().len();
    if nx > 0 && rng.below(25) == 0 {
        return Op::Extra(rng.below(nx as u64) as usize);
    }
    let r = rng.below(100);
    if r < 60 {
        // modifier / lock keys, heavy on Down so that keys get stuck
        let k = *rng.pick(&MOD_KEYS);
        let s = match rng.below(10) {
            0..=4 => KeyState::Down,
            5..=8 => KeyState::Up,
            _ => KeyState::SingleShot,
        };
        Op::Ev(k, s)
    } else if r < 92 {
        Op::Ev(*rng.pick(uni), *rng.pick(&STATES))
    } else if r < 97 || !with_layout_change {
        Op::Mode(*rng.pick(&MODES))
    } else {
        Op::NewLayout
    }
}

fn hostile_histories(rep: &mut Report, uni: &[KeyCode]) {
    let threads = n_threads();
    let total: u64 = if rep.thorough() { 200_000_000 } else { 1_000_000 };
    let hist_len = 2_000u64;
    let n_hist = total / hist_len;
    let seed = rep.seed;
    let uni2 = uni.to_vec();
    let shards = par_map(threads, move |t| {
        let mut viol: Vec<(String, String, J)> = Vec::new();
        let (mut events, mut hists, mut panics) = (0u64, 0u64, 0u64);
        let mut h = t as u64;
        while h < n_hist {
            let mut rng = Rng::fork(seed, 0xC04_0000 + h);
            let li = (h % 10) as usize;
            let variant = (h / 10) % 3; // 0: Keyboard<L,Set2>, 1: Keyboard<L,Set1>, 2: bare EventDecoder<Dbg<L>>
            // the first sixteen histories are long ones (anything that only shows after many events)
            let this_len = if h < 16 { hist_len * 50 } else { hist_len };
            let ops: Vec<Op> = (0..this_len).map(|_| random_op(&mut rng, &uni2, variant == 2)).collect();
            let r = guarded(|| {
                let mut model = ModModel::new();
                let mut mode = HandleControl::Ignore;
                let mut bad: Option<(usize, u16, u16)> = None;
                macro_rules! run_kb {
                    ($set:expr) => {
                        {
                            let mut kb = Keyboard::new($set, AdvLayout, HandleControl::Ignore);
                            for (i, op) in ops.iter().enumerate() {
                                let pre = model.bits;
                                match op {
                                    Op::Ev(k, s) => { let _ = kb.process_keyevent(KeyEvent::new(*k, *s)); }
                                    Op::Mode(hc) => kb.set_ctrl_handling(*hc),
                                    Op::NewLayout => {}
                                    Op::Extra(x) => extra_kb_op!(kb, *x),
                                }
                                model_apply(&mut model, &mut mode, op);
                                let got = bits_from_mods(kb.get_modifiers());
                                if got != model.bits || kb.get_ctrl_handling() != mode {
                                    bad = Some((i, pre, got));
                                    break;
                                }
                            }
                        }
                    };
                }
                match variant {
                    0 => run_kb!(ScancodeSet2::new()),
                    1 => run_kb!(ScancodeSet1::new()),
                    _ => {
                        let mut dec = EventDecoder::new(NullLayout, HandleControl::Ignore);
                        for (i, op) in ops.iter().enumerate() {
                            let pre = model.bits;
                            match op {
                                Op::Ev(k, s) => { let _ = dec.process_keyevent(KeyEvent::new(*k, *s)); }
                                Op::Mode(hc) => dec.set_ctrl_handling(*hc),
                                Op::NewLayout => dec.change_layout(NullLayout),
                                Op::Extra(_) => {}
                            }
                            model_apply(&mut model, &mut mode, op);
                            // rendering is slow: sample every 16th op and the last one
                            if i % 16 == 0 || i + 1 == ops.len() {
                                match parse_debug_mods(&format!("{:?}", dec)) {
                                    Some((got, gm)) => {
                                        if got != model.bits || gm != mode || dec.get_ctrl_handling() != mode {
                                            bad = Some((i, pre, got));
                                            break;
                                        }
                                    }
                                    // a rendering the harness cannot read is not evidence of anything: skip the comparison
                                    None => {}
                                }
                            }
                        }
                    }
                }
                (bad, model.bits)
            });
            hists += 1;
            events += this_len;
            match r {
                Ok((Some((i, pre, got)), _)) => {
                    // recompute the model state before op i for the signature
                    let mut m = ModModel::new();
                    let mut md = HandleControl::Ignore;
                    for op in &ops[..i] {
                        model_apply(&mut m, &mut md, op);
                    }
                    let mut want = m;
                    let mut md2 = md;
                    model_apply(&mut want, &mut md2, &ops[i]);
                    let _ = pre;
                    viol.push((
                        c04_sig(m.bits, md, &ops[i], want.bits, &if got == 0xFFFF { "unparseable".into() } else { mods_str(got) }),
                        format!(
                            "hostile history #{} (layout {}, variant {}), op {} = {}: reported modifiers {} but the record of events says {}",
                            h,
                            LAYOUT_NAMES[li],
                            variant,
                            i,
                            ops[i].show(),
                            mods_str(got),
                            mods_str(want.bits)
                        ),
                        J::obj().with("kind", J::s("events")).with("ops", ops_json(&ops[..=i])).with("expected_last", J::s(mods_str(want.bits))).with("observed_last", J::s(mods_str(got))),
                    ));
                }
                Ok((None, _)) => {}
                Err(p) => {
                    panics += 1;
                    viol.push((format!("C04|history-panic|{}", panic_sig(&p)), format!("hostile event history #{} panicked: {}", h, p), J::Null));
                }
            }
            h += threads as u64;
        }
        (viol, events, hists, panics)
    });
    for (viol, events, hists, panics) in shards {
        rep.evaluations += events;
        rep.panics += panics;
        rep.count("hostile_history_events", events);
        rep.count("hostile_histories", hists);
        for v in viol {
            rep.violate(v.0, v.1, v.2);
        }
    }
}

// =================================================================== C14

type Dec = EventDecoder<RecLayout>;

struct Sim {
    dec: Dec,
    log: std::rc::Rc<std::cell::RefCell<RecLog>>,
    instance: u32,
    mode: HandleControl,
    model: ModModel,
}
impl Sim {
    fn new() -> Sim {
        let log = std::rc::Rc::new(std::cell::RefCell::new(RecLog::default()));
        let lay = RecLayout { instance: 0, log: log.clone() };
        Sim {
            dec: EventDecoder::new(lay, INITIAL_MODE),
            log,
            instance: 0,
            mode: INITIAL_MODE,
            model: ModModel::new(),
        }
    }
    /// live modifier record of the *real* decoder (from its Debug rendering), falling back to the model
    fn live(&self) -> (u16, HandleControl) {
        parse_debug_mods(&format!("{:?}", self.dec)).unwrap_or((self.model.bits, self.mode))
    }
    /// apply one op, returning a description of a C14 violation if the observation contradicts the property
    fn apply(&mut self, op: &Op, check: bool) -> Option<(String, String)> {
        match op {
            Op::Mode(h) => {
                self.dec.set_ctrl_handling(*h);
                self.mode = *h;
                None
            }
            Op::Extra(_) => None,
            Op::NewLayout => {
                self.instance += 1;
                self.dec.change_layout(RecLayout { instance: self.instance, log: self.log.clone() });
                None
            }
            Op::Ev(k, s) => {
                let (pre_bits, _) = if check { self.live() } else { (self.model.bits, self.mode) };
                let n0 = self.log.borrow().calls.len();
                let got = self.dec.process_keyevent(KeyEvent::new(*k, *s));
                self.model.step(*k, *s);
                if !check {
                    return None;
                }
                let calls: Vec<RecCall> = self.log.borrow().calls[n0..].to_vec();
                let (post_bits, _) = self.live();
                let want: String;
                let ok: bool;
                if *s != KeyState::Down {
                    want = "None".into();
                    ok = got.is_none();
                } else if MOD_KEYS.contains(k) {
                    let raw = if *k == KeyCode::NumpadLock && pre_bits & B_RCTRL2 != 0 { KeyCode::PauseBreak } else { *k };
                    want = format!("Raw({:?})", raw);
                    ok = got == Some(DecodedKey::RawKey(raw));
                } else {
                    // exactly the token of exactly one consultation made with (key, live modifiers, current mode) on the current layout instance
                    want = format!("token of one map_keycode({:?}, {}, {}) call on layout instance #{}", k, mods_str(post_bits), mode_str(self.mode), self.instance);
                    ok = calls.len() == 1
                        && calls[0].key == *k
                        && calls[0].mods == post_bits
                        && calls[0].mode == self.mode
                        && calls[0].instance == self.instance
                        && got == Some(DecodedKey::Unicode(char::from_u32(TOKEN_BASE + calls[0].token).unwrap()));
                }
                if ok {
                    None
                } else {
                    let cs: Vec<String> = calls
                        .iter()
                        .map(|c| format!("map_keycode({:?}, {}, {})@#{}→token{}", c.key, mods_str(c.mods), mode_str(c.mode), c.instance, c.token))
                        .collect();
                    Some((want, format!("{} [layout calls: {}]", odk_str(&got), if cs.is_empty() { "none".into() } else { cs.join("; ") })))
                }
            }
        }
    }
}

fn c14_class(calls_desc: &str, got: &str) -> String {
    // a short, history-independent description of the wrong outcome
    let g = got.split(" [").next().unwrap_or(got);
    let tokenish = g.starts_with("U+F") || g.starts_with("U+10");
    let n_calls = if calls_desc.contains("none]") { 0 } else { calls_desc.matches("map_keycode(").count() };
    format!("{}|calls={}", if tokenish { "token" } else { g }, n_calls)
}

pub fn run_c14(rep: &mut Report) {
    let uni = universe();
    event_static_counter_wraps::<S14>(rep, &uni);
    let states = closure(&uni, rep);
    rep.states = Some(states.len() as u64);
    rep.count("decoder_states_found_by_bfs", states.len() as u64);
    rep.require("decoder states", states.len() as u64, 1024);
    let state_list: Vec<Vec<Op>> = states.values().cloned().collect();
    let threads = n_threads();
    let uni2 = uni.clone();
    let shards = par_map(threads, move |t| {
        let mut viol: Vec<(String, String, J)> = Vec::new();
        let (mut n, mut presses, mut tokens, mut panics) = (0u64, 0u64, 0u64, 0u64);
        let mut distinct: BTreeSet<(u16, usize, usize)> = BTreeSet::new();
        let mut i = t;
        while i < state_list.len() {
            let path = &state_list[i];
            for (ki, k) in uni2.iter().enumerate() {
                for s in STATES {
                    let op = Op::Ev(*k, s);
                    let r = guarded(|| {
                        let mut sim = Sim::new();
                        for p in path {
                            sim.apply(p, false);
                        }
                        let pre = sim.model.bits;
                        let mode = sim.mode;
                        let v = sim.apply(&op, true);
                        (pre, mode, v)
                    });
                    n += 1;
                    match r {
                        Ok((pre, mode, None)) => {
                            if s == KeyState::Down {
                                presses += 1;
                                if !MOD_KEYS.contains(k) {
                                    tokens += 1;
                                    distinct.insert((pre, mode_idx(mode), ki));
                                }
                            }
                        }
                        Ok((pre, mode, Some((want, got)))) => {
                            let mut full = path.clone();
                            full.push(op);
                            viol.push((
                                format!("C14|state={}|mode={}|event={}|got={}", mods_str(pre), mode_str(mode), op.show(), c14_class(&got, &got)),
                                format!(
                                    "after [{}], {}: expected {}; observed {}",
                                    path.iter().map(|o| o.show()).collect::<Vec<_>>().join(", "),
                                    op.show(),
                                    want,
                                    got
                                ),
                                J::obj().with("kind", J::s("events-rec")).with("ops", ops_json(&full)).with("expected_last", J::s(want)).with("observed_last", J::s(got)),
                            ));
                        }
                        Err(p) => {
                            panics += 1;
                            viol.push((format!("C14|panic|event={}|{}", op.show(), panic_sig(&p)), format!("{} panicked: {}", op.show(), p), J::Null));
                        }
                    }
                }
            }
            i += threads;
        }
        (viol, n, presses, tokens, panics, distinct)
    });
    let mut distinct_all: BTreeSet<(u16, usize, usize)> = BTreeSet::new();
    let mut n_tr = 0;
    for (viol, n, presses, tokens, panics, distinct) in shards {
        n_tr += n;
        rep.panics += panics;
        rep.count("presses_checked", presses);
        rep.count("presses_answered_by_exactly_one_identified_layout_call", tokens);
        for v in viol {
            rep.violate(v.0, v.1, v.2);
        }
        distinct_all.extend(distinct);
    }
    rep.transitions = Some(n_tr);
    rep.evaluations += n_tr;
    rep.count("state_x_event_cases", n_tr);

    // ---------------------------------------------------------------- orderings of mode / layout changes between two presses
    let mids = [Op::Mode(HandleControl::MapLettersToUnicode), Op::Mode(HandleControl::Ignore), Op::NewLayout, Op::Ev(KeyCode::B, KeyState::Down), Op::Ev(KeyCode::LShift, KeyState::Down), Op::Ev(KeyCode::LShift, KeyState::Up)];
    let mut seqs: Vec<Vec<Op>> = vec![vec![]];
    for len in 1..=4 {
        let mut idx = vec![0usize; len];
        loop {
            seqs.push(idx.iter().map(|i| mids[*i]).collect());
            let mut p = len;
            while p > 0 {
                p -= 1;
                idx[p] += 1;
                if idx[p] < mids.len() {
                    break;
                }
                idx[p] = 0;
                if p == 0 {
                    p = usize::MAX;
                    break;
                }
            }
            if p == usize::MAX {
                break;
            }
        }
    }
    let mut orderings = 0u64;
    for seq in &seqs {
        let r = guarded(|| {
            let mut sim = Sim::new();
            let mut out = Vec::new();
            let first = Op::Ev(KeyCode::A, KeyState::Down);
            if let Some(v) = sim.apply(&first, true) {
                out.push((first, v));
            }
            for op in seq {
                if let Some(v) = sim.apply(op, true) {
                    out.push((*op, v));
                }
            }
            let last = Op::Ev(KeyCode::C, KeyState::Down);
            if let Some(v) = sim.apply(&last, true) {
                out.push((last, v));
            }
            out
        });
        orderings += 1;
        rep.evaluations += seq.len() as u64 + 2;
        match r {
            Ok(vs) => {
                for (op, (want, got)) in vs {
                    let mut full = vec![Op::Ev(KeyCode::A, KeyState::Down)];
                    full.extend(seq.iter().cloned());
                    full.push(Op::Ev(KeyCode::C, KeyState::Down));
                    rep.violate(
                        format!("C14|ordering|between=[{}]|at={}|got={}", seq.iter().map(|o| o.show()).collect::<Vec<_>>().join(","), op.show(), c14_class(&got, &got)),
                        format!("press, then [{}], then press: at {} expected {}; observed {}", seq.iter().map(|o| o.show()).collect::<Vec<_>>().join(", "), op.show(), want, got),
                        J::obj().with("kind", J::s("events-rec")).with("ops", ops_json(&full)).with("expected_last", J::s(want)).with("observed_last", J::s(got)),
                    );
                }
            }
            Err(p) => {
                rep.panics += 1;
                rep.violate(format!("C14|ordering|panic|{}", panic_sig(&p)), format!("ordering sequence panicked: {}", p), J::Null);
            }
        }
    }
    rep.count("orderings_of_mode_layout_changes_between_two_presses", orderings);

    // ---------------------------------------------------------------- hostile histories with interleaved mode / layout changes
    let total: u64 = if rep.thorough() { 100_000_000 } else { 1_000_000 };
    let hist_len = 1_000u64;
    let n_hist = total / hist_len;
    let seed = rep.seed;
    let uni2 = uni.clone();
    let shards = par_map(threads, move |t| {
        let mut viol: Vec<(String, String, J)> = Vec::new();
        let (mut events, mut panics, mut layouts) = (0u64, 0u64, 0u64);
        let mut h = t as u64;
        while h < n_hist {
            let mut rng = Rng::fork(seed, 0xC14_0000 + h);
            let this_len = if h < 8 { hist_len * 20 } else { hist_len };
            let ops: Vec<Op> = (0..this_len).map(|_| random_op(&mut rng, &uni2, true)).collect();
            let r = guarded(|| {
                let mut sim = Sim::new();
                for (i, op) in ops.iter().enumerate() {
                    let pre = sim.model.bits;
                    let mode = sim.mode;
                    if let Some(v) = sim.apply(op, true) {
                        return (Some((i, pre, mode, v)), sim.instance);
                    }
                }
                (None, sim.instance)
            });
            events += this_len;
            match r {
                Ok((None, inst)) => layouts += inst as u64,
                Ok((Some((i, pre, mode, (want, got))), _)) => {
                    viol.push((
                        format!("C14|state={}|mode={}|event={}|got={}", mods_str(pre), mode_str(mode), ops[i].show(), c14_class(&got, &got)),
                        format!("hostile history #{}, op {} = {}: expected {}; observed {}", h, i, ops[i].show(), want, got),
                        J::obj().with("kind", J::s("events-rec")).with("ops", ops_json(&ops[..=i])).with("expected_last", J::s(want)).with("observed_last", J::s(got)),
                    ));
                }
                Err(p) => {
                    panics += 1;
                    viol.push((format!("C14|history-panic|{}", panic_sig(&p)), format!("hostile history #{} panicked: {}", h, p), J::Null));
                }
            }
            h += threads as u64;
        }
        (viol, events, panics, layouts)
    });
    for (viol, events, panics, layouts) in shards {
        rep.evaluations += events;
        rep.panics += panics;
        rep.count("hostile_history_events", events);
        rep.count("hostile_history_layout_changes", layouts);
        for v in viol {
            rep.violate(v.0, v.1, v.2);
        }
    }

    // ---------------------------------------------------------------- the shipped layouts, typed instantiations: what the decoder returns for a press
    //      must be what that layout itself returns for (key, reported modifiers, reported mode)
    {
        use crate::mon_through::{history, HOp};
        let (n_hist, len) = if rep.thorough() { (3000usize, 400usize) } else { (100, 250) };
        let focus: Vec<KeyCode> = uni.iter().copied().filter(|k| !MOD_KEYS.contains(k)).collect();
        let mut compared = 0u64;
        let mut aborted = 0u64;
        for li in 0..10 {
            for h in 0..n_hist {
                let mut rng = Rng::fork(rep.seed, 0xC14_7000 + ((li as u64) << 20) + h as u64);
                let ops = history(&mut rng, &focus, &uni, len);
                let r = guarded(|| {
                    crate::with_layout!(li, l => {
                        let direct = bare_dyn(li);
                        let mut kb = Keyboard::new(ScancodeSet1::new(), l, if h % 2 == 0 { HandleControl::Ignore } else { HandleControl::MapLettersToUnicode });
                        let mut n = 0u64;
                        let mut bad = None;
                        for (i, op) in ops.iter().enumerate() {
                            match op {
                                HOp::Mode(m) => kb.set_ctrl_handling(MODES[*m]),
                                HOp::Extra(x) => extra_kb_op!(kb, *x),
                                HOp::Ev(k, st) => {
                                    // the layout is consulted with the record as it stands when the press arrives (a press of an
                                    // ordinary key changing the record would be C04's matter, not this property's)
                                    let pre = kb.get_modifiers().clone();
                                    let got = kb.process_keyevent(KeyEvent::new(*k, *st));
                                    if *st == KeyState::Down && !MOD_KEYS.contains(k) {
                                        let want = direct.map_keycode(*k, &pre, kb.get_ctrl_handling());
                                        n += 1;
                                        if got != Some(want) {
                                            bad = Some((i, *k, bits_from_mods(kb.get_modifiers()), kb.get_ctrl_handling(), got, want));
                                            break;
                                        }
                                    }
                                }
                            }
                        }
                        (n, bad)
                    })
                });
                match r {
                    Ok((n, bad)) => {
                        compared += n;
                        if let Some((i, k, m, mode, got, want)) = bad {
                            let tail: Vec<String> = ops[i.saturating_sub(8)..=i].iter().map(|o| o.show()).collect();
                            rep.violate(
                                format!("C14|shipped-layout|{}|key={:?}|want={}|got={}", LAYOUT_NAMES[li], k, dk_str(&want), odk_str(&got)),
                                format!(
                                    "Keyboard<{}, _>: after … {} the press of {:?} returned {}, but the installed layout returns {} for that key under the reported modifiers {} and mode {}",
                                    LAYOUT_NAMES[li],
                                    tail.join(", "),
                                    k,
                                    odk_str(&got),
                                    dk_str(&want),
                                    mods_str(m),
                                    mode_str(mode)
                                ),
                                J::obj().with("kind", J::s("events")).with("layout", J::s(LAYOUT_NAMES[li])).with("initial_mode", J::s(if h % 2 == 0 { "Ignore" } else { "Map" })).with("ops", J::strs(ops[..=i].iter().map(|o| o.show()))).with("expected_last", J::s(dk_str(&want))).with("observed_last", J::s(odk_str(&got))),
                            );
                        }
                    }
                    Err(_) => aborted += 1,
                }
            }
        }
        // the same with a user-defined layout that returns arbitrary keys (raw modifier keys included), and two soaks:
        // two keys pressed alternately without ever being released, and a key re-pressed after exactly 2^8 / 2^16
        // modifier changes (anything that counts or stamps events with a narrow integer)
        let mut adv = 0u64;
        let mut adv_histories: Vec<Vec<HOp>> = Vec::new();
        for h in 0..(n_hist * 2) {
            let mut rng = Rng::fork(rep.seed, 0xC14_A000 + h as u64);
            adv_histories.push(history(&mut rng, &focus, &uni, len));
        }
        adv_histories.push((0..70_000).map(|i| HOp::Ev(if i % 2 == 0 { KeyCode::A } else { KeyCode::B }, KeyState::Down)).collect());
        for period in [253usize, 254, 255, 256, 257, 258, 259, 65_533, 65_534, 65_535, 65_536, 65_537, 65_538, 65_539] {
            for (tog, last) in [(KeyCode::CapsLock, KeyCode::LShift), (KeyCode::LShift, KeyCode::LControl), (KeyCode::NumpadLock, KeyCode::RAltGr)] {
                let mut v = vec![HOp::Ev(KeyCode::Numpad7, KeyState::Down), HOp::Ev(KeyCode::A, KeyState::Down)];
                v.extend((0..period - 1).map(|_| HOp::Ev(tog, KeyState::Down)));
                v.push(HOp::Ev(last, KeyState::Down));
                v.push(HOp::Ev(KeyCode::A, KeyState::Down));
                v.push(HOp::Mode(1));
                v.extend((0..period - 1).map(|i| HOp::Mode(i % 2)));
                v.push(HOp::Ev(KeyCode::A, KeyState::Down));
                adv_histories.push(v);
            }
        }
        for ops in adv_histories.iter() {
            let r = guarded(|| {
                let direct = AdvLayout;
                let mut kb = Keyboard::new(ScancodeSet2::new(), AdvLayout, HandleControl::MapLettersToUnicode);
                let mut n = 0u64;
                let mut bad = None;
                for (i, op) in ops.iter().enumerate() {
                    match op {
                        HOp::Mode(m) => kb.set_ctrl_handling(MODES[*m]),
                        HOp::Extra(x) => extra_kb_op!(kb, *x),
                        HOp::Ev(k, st) => {
                            let pre = kb.get_modifiers().clone();
                            let got = kb.process_keyevent(KeyEvent::new(*k, *st));
                            if *st == KeyState::Down && !MOD_KEYS.contains(k) {
                                let want = direct.map_keycode(*k, &pre, kb.get_ctrl_handling());
                                n += 1;
                                if got != Some(want) {
                                    bad = Some((i, *k, bits_from_mods(kb.get_modifiers()), got, want));
                                    break;
                                }
                            }
                        }
                    }
                }
                (n, bad)
            });
            if let Ok((n, bad)) = r {
                adv += n;
                if let Some((i, k, m, got, want)) = bad {
                    let tail: Vec<String> = ops[i.saturating_sub(6)..=i].iter().map(|o| o.show()).collect();
                    rep.violate(
                        format!("C14|user-layout|key={:?}|after-ops={}|want={}|got={}", k, if i > 1000 { "many" } else { "few" }, dk_str(&want), odk_str(&got)),
                        format!(
                            "Keyboard over a user-defined layout: after {} operations ending in … {} the press of {:?} returned {}, but the installed layout returns {} under the reported modifiers {}",
                            i,
                            tail.join(", "),
                            k,
                            odk_str(&got),
                            dk_str(&want),
                            mods_str(m)
                        ),
                        J::obj().with("kind", J::s("events")).with("layout", J::s("AdvLayout")).with("ops_total", J::u(i as u64)).with("last_ops", J::strs(tail)),
                    );
                }
            }
        }
        // the ABA shape with exactly 2^k changes for every k (quick: 9..26, thorough: 9..32), and – thorough – 2^32 presses of two
        // alternating keys (all streamed, own threads)
        {
            use crate::mon_through::{big_aba, BIG_COMBOS};
            let kmax: u32 = if light() { 17 } else if rep.thorough() { 32 } else { 26 };
            let n: u64 = 1 << 32;
            let mut hs = Vec::new();
            for (c, (tog, alt, last)) in BIG_COMBOS.iter().enumerate() {
                let (tog, alt, last) = (*tog, *alt, *last);
                hs.push((
                    c,
                    std::thread::spawn(move || {
                        let mut all = Vec::new();
                        for k in 9..=kmax {
                            let ns: &[i64] = if k <= 18 { &[0, -1, 1, -2, 2, -3, 3] } else { &[0] };
                            for d in ns {
                                if let Ok(obs) = guarded(|| big_aba(AdvLayout, KeyCode::A, tog, alt, last, ((1i64 << k) + d) as u64)) {
                                    all.push((k, obs));
                                }
                            }
                        }
                        all
                    }),
                ));
            }
            let thorough = rep.thorough();
            let soak = std::thread::spawn(move || {
                if !thorough {
                    return Ok(None);
                }
                guarded(|| {
                    let direct = AdvLayout;
                    let mut kb = Keyboard::new(ScancodeSet2::new(), AdvLayout, HandleControl::MapLettersToUnicode);
                    let want = [direct.map_keycode(KeyCode::A, kb.get_modifiers(), HandleControl::MapLettersToUnicode), direct.map_keycode(KeyCode::B, kb.get_modifiers(), HandleControl::MapLettersToUnicode)];
                    for i in 0..n + 1000 {
                        let k = if i % 2 == 0 { KeyCode::A } else { KeyCode::B };
                        let got = kb.process_keyevent(KeyEvent::new(k, KeyState::Down));
                        if got != Some(want[(i % 2) as usize].clone()) {
                            return Some((i, k, got, want[(i % 2) as usize].clone(), bits_from_mods(kb.get_modifiers())));
                        }
                    }
                    None
                })
            });
            for (c, h) in hs {
                for (k, obs) in h.join().unwrap_or_default() {
                    rep.count("aba_2^k_histories_over_a_user_layout", 1);
                    for o in obs {
                        adv += 1;
                        let want = AdvLayout.map_keycode(KeyCode::A, &o.pre, o.mode);
                        if o.got != Some(want.clone()) {
                            rep.violate(
                                format!("C14|user-layout|key=A|after-ops=2^k|want={}|got={}", dk_str(&want), odk_str(&o.got)),
                                format!(
                                    "Keyboard over a user-defined layout, history with exactly 2^{} changes (#{}: {:?} … then {:?}), press '{}': returned {}, but the installed layout returns {} under the reported modifiers {}",
                                    k, c, BIG_COMBOS[c].0, BIG_COMBOS[c].2, o.step, odk_str(&o.got), dk_str(&want), mods_str(bits_from_mods(&o.pre))
                                ),
                                J::obj().with("kind", J::s("aba-2^k")).with("k", J::u(k as u64)).with("layout", J::s("AdvLayout")).with("combo", J::u(c as u64)).with("step", J::s(o.step)),
                            );
                        }
                    }
                }
            }
            if let (true, Ok(Ok(r))) = (thorough, soak.join()) {
                rep.count("alternating_presses_without_release_in_one_2_32_soak", n + 1000);
                adv += n + 1000;
                if let Some((i, k, got, want, m)) = r {
                    rep.violate(
                        format!("C14|user-layout|key={:?}|after-ops=2^32-soak|want={}|got={}", k, dk_str(&want), odk_str(&got)),
                        format!("Keyboard over a user-defined layout: press #{} of A/B pressed alternately without release returned {}, the layout returns {} (modifiers {})", i, odk_str(&got), dk_str(&want), mods_str(m)),
                        J::obj().with("kind", J::s("soak-2^32")).with("presses", J::u(i)),
                    );
                }
            }
        }
        // collision-guided pairs (mon_through::leaf_collision_pairs): the second press of each pair against a direct call
        {
            let li = (rep.seed as usize) % 10;
            let (obs, fingerprinted, pairs) = crate::mon_through::leaf_collision_pairs(li, &uni);
            rep.count("presses_fingerprinted_by_the_fields_of_the_rendering", fingerprinted);
            rep.count("pairs_of_presses_that_leave_a_field_equal_pressed_back_to_back", pairs);
            let direct = bare_dyn(li);
            for o in obs {
                compared += 1;
                let (ki, _, mode) = o.second;
                let want = direct.map_keycode(uni[ki], &o.pre, MODES[mode]);
                if o.got != Some(want.clone()) {
                    rep.violate(
                        format!("C14|shipped-layout|{}|key={:?}|want={}|got={}", LAYOUT_NAMES[li], uni[ki], dk_str(&want), odk_str(&o.got)),
                        format!(
                            "Keyboard<{}, _>: after a press of {:?} with {} (mode {}) and modifier events only, the press of {:?} returned {}, but the installed layout returns {} for that key under the reported modifiers {} and mode {}",
                            LAYOUT_NAMES[li], uni[o.first.0], mods_str(o.first.1), mode_str(MODES[o.first.2]), uni[ki], odk_str(&o.got), dk_str(&want), mods_str(bits_from_mods(&o.pre)), mode_str(MODES[mode])
                        ),
                        J::obj().with("kind", J::s("collision-pair")).with("layout", J::s(LAYOUT_NAMES[li])).with("first", J::s(format!("{:?} {} {}", uni[o.first.0], mods_str(o.first.1), mode_str(MODES[o.first.2])))).with("second", J::s(format!("{:?} {} {}", uni[ki], mods_str(bits_from_mods(&o.pre)), mode_str(MODES[mode])))),
                    );
                }
            }
        }
        rep.count("user_defined_layout_presses_compared_with_a_direct_call", adv);
        rep.evaluations += compared + adv;
        rep.count("shipped_layout_presses_compared_with_a_direct_layout_call", compared);
        rep.count("shipped_layout_histories_aborted_by_a_panic(C08_matter)", aborted);
    }

    run_exploration::<S14>(rep, &uni);
    magic_histories::<S14>(rep);
    event_soaks::<S14>(rep);
    rep.distinct_nontrivial = distinct_all.len() as u64;
    rep.exhaustive = Some(states.len() < BFS_CAP);
    rep.rule = "a recording layout answers every consultation with a unique token, so a decoded key identifies the exact map_keycode call that produced it; from every one of the decoder's states (BFS closure) every key × {Down, Up, SingleShot} is applied: releases/one-shots must yield None, modifier/lock presses their own raw key (NumLock under the hidden Ctrl → PauseBreak), any other press the token of exactly one call made with (that key, the decoder's live modifiers, the current mode) on the currently installed layout instance; \
                all orderings (length ≤ 4) of mode changes, layout changes and other presses between two presses; seeded hostile histories with interleaved set_ctrl_handling / change_layout; \
                distinct_nontrivial = distinct (modifier state, mode, key) presses answered by exactly the right call"
        .into();
    rep.assumptions.push("whether the layout is consulted on releases or for modifier keys is not constrained (not observable through the API); only the returned value is".into());
    // samples from a real run
    let mut sim = Sim::new();
    let demo = [Op::Ev(KeyCode::LShift, KeyState::Down), Op::Ev(KeyCode::A, KeyState::Down), Op::Mode(HandleControl::Ignore), Op::NewLayout, Op::Ev(KeyCode::A, KeyState::Down), Op::Ev(KeyCode::A, KeyState::Up)];
    for op in demo.iter() {
        let n0 = sim.log.borrow().calls.len();
        let v = sim.apply(op, true);
        let calls: Vec<String> = sim.log.borrow().calls[n0..].iter().map(|c| format!("map_keycode({:?},{},{})@#{}→token{}", c.key, mods_str(c.mods), mode_str(c.mode), c.instance, c.token)).collect();
        rep.sample_str(format!("{} ⇒ layout calls [{}] {}", op.show(), calls.join("; "), if v.is_none() { "✓" } else { "✗" }));
    }
}
