//! monitor <Cnn> --tier quick|thorough --seed N --out result.json [--replay file]
use pckb_verif::report::{install_panic_hook, Report};
use pckb_verif::*;
use pc_keyboard::{ScancodeSet1, ScancodeSet2};

fn main() {
    let args: Vec<String> = std::env::args().collect();
    if args.len() < 2 {
        eprintln!("usage: monitor <Cnn> --tier quick|thorough --seed N --out file [--replay file]");
        std::process::exit(2);
    }
    let prop = args[1].clone();
    let mut tier = "quick".to_string();
    let mut seed = 1u64;
    let mut out = None;
    let mut replay = None;
    let mut i = 2;
    while i < args.len() {
        match args[i].as_str() {
            "--tier" => {
                tier = args[i + 1].clone();
                i += 2;
            }
            "--seed" => {
                seed = args[i + 1].parse().expect("seed");
                i += 2;
            }
            "--out" => {
                out = Some(args[i + 1].clone());
                i += 2;
            }
            "--replay" => {
                replay = Some(args[i + 1].clone());
                i += 2;
            }
            x => {
                eprintln!("unknown arg {}", x);
                std::process::exit(2);
            }
        }
    }
    install_panic_hook();
    if let Some(_r) = replay {
        eprintln!("replay not yet implemented");
        std::process::exit(2);
    }
    let mut rep = Report::new(&prop, &tier, seed);
    match prop.as_str() {
        "C01" => {
            mon_scancode::run::<ScancodeSet2>("C01", &mut rep);
            mon_scancode::readme_crosscheck(&mut rep, 2);
        }
        "C02" => {
            mon_scancode::run::<ScancodeSet1>("C02", &mut rep);
            mon_scancode::readme_crosscheck(&mut rep, 1);
        }
        "C03" => mon_layout::run_c03(&mut rep),
        "C08" => mon_nopanic::run(&mut rep),
        "C09" => mon_layout::run_c09(&mut rep),
        "C10" => mon_layout::run_c10(&mut rep),
        "C11" => mon_layout::run_c11(&mut rep),
        "C12" => mon_layout::run_c12(&mut rep),
        "C15" => mon_layout::run_c15(&mut rep),
        "C16" => mon_layout::run_c16(&mut rep),
        "C17" => mon_layout::run_c17(&mut rep),
        "C04" => mon_events::run_c04(&mut rep),
        "C14" => mon_events::run_c14(&mut rep),
        "C05" => mon_frame::run_c05(&mut rep),
        "C06" => mon_frame::run_c06(&mut rep),
        "C07" => mon_resync::run_both(&mut rep),
        "C13" => mon_xlate::run(&mut rep),
        "C18" => mon_compose::run_both(&mut rep),
        "C19" => mon_pairing::run_both(&mut rep),
        _ => {
            eprintln!("unknown property {}", prop);
            std::process::exit(2);
        }
    }
    let j = rep.to_json().to_pretty();
    match out {
        Some(p) => std::fs::write(&p, j).expect("write result"),
        None => print!("{}", j),
    }
}
