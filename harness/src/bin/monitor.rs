//! monitor <Cnn> --tier quick|thorough --seed N --out result.json [--replay file]
use pckb_verif::report::{install_panic_hook, Report};
use pckb_verif::*;
use pc_keyboard::{ScancodeSet1, ScancodeSet2};

fn main() {
    let args: Vec<String> = std::env::args().collect();
    if args.len() < 2 {
        eprintln!("usage: monitor <Cnn> --tier quick|thorough --seed N --out file [--replay file]");
        std::process::exit(2);
    }
    if args[1] == "--list-extra-keys" {
        // child-process helper of keys::universe()
        for (set, seq) in keys::list_extra_key_sequences() {
            println!("{} {}", set, seq.iter().map(|b| format!("{:02X}", b)).collect::<String>());
        }
        return;
    }
    if args[1] == "--part" {
        // child-process helper: one part of a monitor, result JSON on stdout
        install_panic_hook();
        let part = args.get(2).cloned().unwrap_or_default();
        let tier = args.iter().position(|a| a == "--tier").and_then(|i| args.get(i + 1)).cloned().unwrap_or_else(|| "quick".into());
        let seed: u64 = args.iter().position(|a| a == "--seed").and_then(|i| args.get(i + 1)).and_then(|s| s.parse().ok()).unwrap_or(1);
        let mut rep = Report::new("part", &tier, seed);
        match part.as_str() {
            "c05-keyboard-add-word" => mon_frame::part_kb_add_word(&mut rep),
            _ => std::process::exit(2),
        }
        print!("{}", rep.to_json().to_string());
        return;
    }
    let prop = args[1].clone();
    let mut tier = "quick".to_string();
    let mut seed = 1u64;
    let mut out = None;
    let mut replay = None;
    let mut i = 2;
    while i < args.len() {
        match args[i].as_str() {
            "--tier" => {
                tier = args[i + 1].clone();
                i += 2;
            }
            "--seed" => {
                seed = args[i + 1].parse().expect("seed");
                i += 2;
            }
            "--out" => {
                out = Some(args[i + 1].clone());
                i += 2;
            }
            "--replay" => {
                replay = Some(args[i + 1].clone());
                i += 2;
            }
            x => {
                eprintln!("unknown arg {}", x);
                std::process::exit(2);
            }
        }
    }
    install_panic_hook();
    if let Some(r) = replay {
        std::process::exit(replay::run(&r));
    }
    let mut rep = Report::new(&prop, &tier, seed);
    let known = ["C01", "C02", "C03", "C04", "C05", "C06", "C07", "C08", "C09", "C10", "C11", "C12", "C13", "C14", "C15", "C16", "C17", "C18", "C19"];
    if !known.contains(&prop.as_str()) {
        eprintln!("unknown property {}", prop);
        std::process::exit(2);
    }
    // A panic that escapes every guarded section is either the crate panicking in a place the monitor
    // did not expect (a violation: every oracle expects a value) or a bug of the monitor itself (inconclusive).
    let outcome = report::guarded(|| dispatch(&prop, &mut rep));
    if let Err(msg) = outcome {
        let locs: Vec<&str> = msg.split(" @ ").skip(1).collect();
        let harness_only = !locs.is_empty() && locs.iter().all(|l| l.contains("harness/src/"));
        if harness_only {
            rep.inconclusive(format!("the monitor itself panicked: {}", msg));
        } else {
            rep.panics += 1;
            rep.violate(
                format!("{}|panic-outside-guard|{}", prop, report::panic_sig(&msg)),
                format!("the crate panicked while the monitor was collecting observations: {}", msg),
                json::J::Null,
            );
        }
    }
    let j = rep.to_json().to_pretty();
    match out {
        Some(p) => std::fs::write(&p, j).expect("write result"),
        None => print!("{}", j),
    }
}

fn dispatch(prop: &str, rep: &mut Report) {
    dispatch_once(prop, rep);
    // further constructors of the decoders (found in the tree by build.rs): the decoder properties speak about the
    // decoder, however it was built, so the monitor is repeated with `fresh()` meaning each of them in turn
    use std::sync::atomic::Ordering::SeqCst;
    let sets: &[u8] = match prop {
        "C01" => &[2],
        "C02" => &[1],
        "C07" | "C13" | "C19" | "C18" | "C08" => &[1, 2, 0],
        "C05" | "C06" => &[0],
        _ => &[],
    };
    for set in sets {
        let names: Vec<&'static str> = match set {
            1 => layouts::extra_ctors_set1().iter().map(|c| c.0).collect(),
            2 => layouts::extra_ctors_set2().iter().map(|c| c.0).collect(),
            _ => layouts::extra_ctors_ps2().iter().map(|c| c.0).collect(),
        };
        let slot = match set {
            1 => &scan::CTOR_SET1,
            2 => &scan::CTOR_SET2,
            _ => &scan::CTOR_PS2,
        };
        let ty = match set {
            1 => "ScancodeSet1",
            2 => "ScancodeSet2",
            _ => "Ps2Decoder",
        };
        for (k, name) in names.iter().enumerate() {
            slot.store(k + 1, SeqCst);
            let mut sub = Report::new(prop, &rep.tier, rep.seed);
            let r = report::guarded(|| dispatch_once(prop, &mut sub));
            slot.store(0, SeqCst);
            if let Err(msg) = r {
                sub.violate(format!("{}|panic-outside-guard|{}", prop, report::panic_sig(&msg)), format!("the crate panicked while the monitor was collecting observations: {}", msg), json::J::Null);
            }
            rep.absorb(sub, &format!("{}::{}", ty, name));
        }
    }
}

fn dispatch_once(prop: &str, rep: &mut Report) {
    let rep = &mut *rep;
    match prop {
        "C01" => {
            mon_scancode::run::<ScancodeSet2>("C01", rep);
            mon_scancode::readme_crosscheck(rep, 2);
        }
        "C02" => {
            mon_scancode::run::<ScancodeSet1>("C02", rep);
            mon_scancode::readme_crosscheck(rep, 1);
        }
        "C03" => mon_layout::run_c03(rep),
        "C08" => mon_nopanic::run(rep),
        "C09" => mon_layout::run_c09(rep),
        "C10" => mon_layout::run_c10(rep),
        "C11" => mon_layout::run_c11(rep),
        "C12" => mon_layout::run_c12(rep),
        "C15" => mon_layout::run_c15(rep),
        "C16" => mon_layout::run_c16(rep),
        "C17" => mon_layout::run_c17(rep),
        "C04" => mon_events::run_c04(rep),
        "C14" => mon_events::run_c14(rep),
        "C05" => mon_frame::run_c05(rep),
        "C06" => mon_frame::run_c06(rep),
        "C07" => mon_resync::run_both(rep),
        "C13" => mon_xlate::run(rep),
        "C18" => mon_compose::run_both(rep),
        "C19" => mon_pairing::run_both(rep),
        _ => {}
    }
}
