//! monitor <Cnn> --tier quick|thorough --seed N --out result.json [--replay file]
use pckb_verif::report::{install_panic_hook, Report};
use pckb_verif::*;
use pc_keyboard::{ScancodeSet1, ScancodeSet2};

fn main() {
    let args: Vec<String> = std::env::args().collect();
    if args.len() < 2 {
        eprintln!("usage: monitor <Cnn> --tier quick|thorough --seed N --out file [--replay file]");
        std::process::exit(2);
    }
    let prop = args[1].clone();
    let mut tier = "quick".to_string();
    let mut seed = 1u64;
    let mut out = None;
    let mut replay = None;
    let mut i = 2;
    while i < args.len() {
        match args[i].as_str() {
            "--tier" => {
                tier = args[i + 1].clone();
                i += 2;
            }
            "--seed" => {
                seed = args[i + 1].parse().expect("seed");
                i += 2;
            }
            "--out" => {
                out = Some(args[i + 1].clone());
                i += 2;
            }
            "--replay" => {
                replay = Some(args[i + 1].clone());
                i += 2;
            }
            x => {
                eprintln!("unknown arg {}", x);
                std::process::exit(2);
            }
        }
    }
    install_panic_hook();
    if let Some(_r) = replay {
        eprintln!("replay not yet implemented");
        std::process::exit(2);
    }
    let mut rep = Report::new(&prop, &tier, seed);
    match prop.as_str() {
        "C01" => {
            mon_scancode::run::<ScancodeSet2>("C01", &mut rep);
            mon_scancode::readme_crosscheck(&mut rep, 2);
        }
        "C02" => {
            mon_scancode::run::<ScancodeSet1>("C02", &mut rep);
            mon_scancode::readme_crosscheck(&mut rep, 1);
        }
        _ => {
            eprintln!("unknown property {}", prop);
            std::process::exit(2);
        }
    }
    let j = rep.to_json().to_pretty();
    match out {
        Some(p) => std::fs::write(&p, j).expect("write result"),
        None => print!("{}", j),
    }
}
