//! Reduced C08 workloads for the Miri pass: `miri_lite <shard> <nshards> [stride]`.
//! No formatting, no catch_unwind: under Miri any panic, overflow or undefined behaviour aborts
//! the process with a diagnostic, which ./check reports as a C08 violation.
//! Prints `MIRI-LITE shard=<i>/<n> calls=<k> checksum=<x>` on success.

use pc_keyboard::layouts::*;
use pc_keyboard::*;

fn mods_from_bits(b: u16) -> Modifiers {
    Modifiers {
        lshift: b & 1 != 0,
        rshift: b & 2 != 0,
        lctrl: b & 4 != 0,
        rctrl: b & 8 != 0,
        numlock: b & 16 != 0,
        capslock: b & 32 != 0,
        lalt: b & 64 != 0,
        ralt: b & 128 != 0,
        rctrl2: b & 256 != 0,
    }
}

fn layout_obj(li: usize, form: usize) -> Box<dyn KeyboardLayout> {
    pckb_verif::layouts::layout_obj(li, form)
}

fn mix(acc: &mut u64, v: u64) {
    *acc = acc.rotate_left(5) ^ v.wrapping_mul(0x9E37_79B9_7F4A_7C15);
}

fn enc_res(r: &Result<Option<KeyEvent>, Error>) -> u64 {
    match r {
        Ok(None) => 0,
        Ok(Some(e)) => 16 + (e.code as u8 as u64) * 3 + e.state as u8 as u64,
        Err(e) => 1 + err_no(e),
    }
}
fn err_no(e: &Error) -> u64 {
    match e {
        Error::BadStartBit => 1,
        Error::BadStopBit => 2,
        Error::ParityError => 3,
        Error::UnknownKeyCode => 4,
        _ => 5,
    }
}
fn enc_dk(d: &Option<DecodedKey>) -> u64 {
    match d {
        None => 0,
        Some(DecodedKey::Unicode(c)) => 1 + *c as u64,
        Some(DecodedKey::RawKey(k)) => 0x8000_0000 | *k as u8 as u64,
    }
}

fn main() {
    let args: Vec<String> = std::env::args().collect();
    let shard: usize = args.get(1).and_then(|s| s.parse().ok()).unwrap_or(0);
    let nshards: usize = args.get(2).and_then(|s| s.parse().ok()).unwrap_or(1);
    let stride: usize = args.get(3).and_then(|s| s.parse().ok()).unwrap_or(1);
    // `miri_lite quick <seed>`: a small seeded selection of units for the quick tier
    let quick = args.get(1).map(|s| s == "quick").unwrap_or(false);
    let qseed: usize = if quick { args.get(2).and_then(|s| s.parse().ok()).unwrap_or(1) } else { 0 };
    let keys = pckb_verif::keys::NAMED_KEYS;
    let mut calls = 0u64;
    let mut sum = 0u64;
    let mut unit = 0usize; // work units are dealt round-robin to shards
    let mine = |unit: &mut usize| {
        *unit += 1;
        if quick {
            // units: 1..=9 scancode states, 10..=25 frame chunks, 26..=36 clear lengths, 37..=66 layout objects, 67..=130 modifier masks
            let u = *unit;
            // all scancode units, one frame chunk, one clear length, every layout in one (seeded) form, one modifier mask
            let layout_unit = u >= 37 && u <= 66 && (u - 37) % 3 == (qseed + (u - 37) / 3) % 3;
            return u <= 9 || u == 10 + qseed % 16 || u == 26 + qseed % 11 || layout_unit || u == 67 + (qseed * 7 + 63) % 64;
        }
        (*unit / stride.max(1)) % nshards == shard && *unit % stride.max(1) == 0
    };

    // ---- scancode decoders: every prefix state × 256 bytes (one unit per state)
    let p2: [&[u8]; 6] = [&[], &[0xE0], &[0xE1], &[0xF0], &[0xE0, 0xF0], &[0xE1, 0xF0]];
    for p in p2.iter() {
        if mine(&mut unit) {
            for b in 0..=255u8 {
                let mut d = ScancodeSet2::new();
                for x in p.iter() {
                    let _ = d.advance_state(*x);
                }
                mix(&mut sum, enc_res(&d.advance_state(b)));
                // and what follows must decode too
                mix(&mut sum, enc_res(&d.advance_state(b ^ 0x5A)));
                calls += 2 + p.len() as u64;
            }
        }
    }
    for p in p2[..3].iter() {
        if mine(&mut unit) {
            for b in 0..=255u8 {
                let mut d = ScancodeSet1::new();
                for x in p.iter() {
                    let _ = d.advance_state(*x);
                }
                mix(&mut sum, enc_res(&d.advance_state(b)));
                mix(&mut sum, enc_res(&d.advance_state(b ^ 0x5A)));
                calls += 2 + p.len() as u64;
            }
        }
    }

    // ---- frame decoder: all 2048 frames bit-serially on one decoder, add_word for all of them and for words with high bits
    for chunk in 0..16u16 {
        if mine(&mut unit) {
            let mut d = Ps2Decoder::new();
            let mut kb = Keyboard::new(ScancodeSet2::new(), Us104Key, HandleControl::Ignore);
            for w in (chunk * 128)..((chunk + 1) * 128) {
                for i in 0..11 {
                    let bit = (w >> i) & 1 == 1;
                    let r = d.add_bit(bit);
                    mix(&mut sum, match r { Ok(None) => 0, Ok(Some(b)) => 1 + b as u64, Err(e) => 300 + err_no(&e) });
                    mix(&mut sum, enc_res(&kb.add_bit(bit)));
                    calls += 2;
                }
                for hi in [0u16, 0x0800, 0xF800] {
                    let r = d.add_word(w | hi);
                    mix(&mut sum, match r { Ok(b) => 1 + b as u64, Err(e) => 300 + err_no(&e) });
                    mix(&mut sum, enc_res(&kb.add_word(w | hi)));
                    calls += 2;
                }
            }
        }
    }
    // ---- clear() at every partial state (2047), then a bit
    for n in 0..=10usize {
        if mine(&mut unit) {
            for v in 0..(1u32 << n) {
                let mut d = Ps2Decoder::new();
                for i in 0..n {
                    let _ = d.add_bit((v >> i) & 1 == 1);
                }
                d.clear();
                let r = d.add_bit(v & 1 == 1);
                mix(&mut sum, r.is_ok() as u64);
                calls += n as u64 + 2;
            }
        }
    }

    // ---- layouts: 30 objects × keys × 2 modes × 32 abstract modifier classes (+ the left/right/hidden variants of each)
    let class_reps: Vec<u16> = {
        let mut v = Vec::new();
        for shift in [0u16, 1, 2] {
            for ctrl in [0u16, 4, 8] {
                for alt in [0u16, 64, 128] {
                    for caps in [0u16, 32] {
                        for num in [0u16, 16] {
                            v.push(shift | ctrl | alt | caps | num | if (shift + ctrl) % 3 == 1 { 256 } else { 0 });
                        }
                    }
                }
            }
        }
        v
    };
    for li in 0..10 {
        for form in 0..3 {
            if mine(&mut unit) {
                let lay = layout_obj(li, form);
                for k in keys.iter() {
                    for mode in [HandleControl::MapLettersToUnicode, HandleControl::Ignore] {
                        for m in class_reps.iter().step_by(if quick { 17 } else { 1 }) {
                            let d = lay.map_keycode(*k, &mods_from_bits(*m), mode);
                            mix(&mut sum, enc_dk(&Some(d)));
                            calls += 1;
                        }
                    }
                }
            }
        }
    }

    // ---- event decoder: every key event in 128 decoder states (64 modifier patterns × 2 modes)
    let mod_keys = [KeyCode::LShift, KeyCode::RControl, KeyCode::LAlt, KeyCode::RAltGr, KeyCode::CapsLock, KeyCode::RControl2];
    for mask in 0..64u32 {
        if mine(&mut unit) {
            for mode in [HandleControl::MapLettersToUnicode, HandleControl::Ignore] {
                for k in keys.iter() {
                    for st in [KeyState::Down, KeyState::Up, KeyState::SingleShot] {
                        let mut kb = Keyboard::new(ScancodeSet1::new(), AnyLayout::De105Key(De105Key), mode);
                        for (i, mk) in mod_keys.iter().enumerate() {
                            if mask & (1 << i) != 0 {
                                let _ = kb.process_keyevent(KeyEvent::new(*mk, KeyState::Down));
                                calls += 1;
                            }
                        }
                        let d = kb.process_keyevent(KeyEvent::new(*k, st));
                        mix(&mut sum, enc_dk(&d));
                        mix(&mut sum, kb.get_modifiers().is_altgr() as u64 + 2 * kb.get_modifiers().is_caps() as u64);
                        let _ = kb.get_ctrl_handling();
                        calls += 2;
                    }
                }
            }
        }
    }
    println!("MIRI-LITE shard={}/{} stride={} calls={} checksum={:016x}", shard, nshards, stride, calls, sum);
}
