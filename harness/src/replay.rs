//! `monitor <Cnn> --replay <file>`: re-execute a recorded violating case on the current tree and
//! print what the real code does now, step by step.  Exit 1 if the recorded wrong outcome is
//! observed again, 0 if not, 2 if the file's case kind has no direct trace (./check then falls
//! back to re-running the monitor and looking for the signature).

use crate::json::{self, J};
use crate::keys::*;
use crate::layouts::*;
use crate::mon_compose::{KOp, Twin};
use crate::report::guarded;
use crate::scan::*;
use pc_keyboard::{HandleControl, KeyEvent, KeyState, Keyboard, ScancodeSet1, ScancodeSet2};

fn bytes_of(j: Option<&J>) -> Vec<u8> {
    j.and_then(|a| a.as_arr()).map(|a| a.iter().filter_map(|x| x.as_i64()).map(|x| x as u8).collect()).unwrap_or_default()
}

fn trace_bytes<D: Dec>(bytes: &[u8], via: &str) -> String {
    let mut d = D::fresh();
    let mut kb: Keyboard<DynLayout, D> = Keyboard::new(D::fresh(), dyn_layout(0, 0), HandleControl::Ignore);
    let mut last = String::new();
    for b in bytes {
        let r = guarded(|| if via.contains("Keyboard") { kb.add_byte(*b) } else { d.advance_state(*b) });
        last = match &r {
            Ok(r) => res_str(r),
            Err(p) => format!("PANIC({})", crate::report::panic_sig(p)),
        };
        println!("  byte 0x{:02X} → {}   (decoder now {:?})", b, last, d);
    }
    last
}

pub fn run(path: &str) -> i32 {
    let txt = match std::fs::read_to_string(path) {
        Ok(t) => t,
        Err(e) => {
            eprintln!("cannot read {}: {}", path, e);
            return 2;
        }
    };
    let doc = match json::parse(&txt) {
        Ok(d) => d,
        Err(e) => {
            eprintln!("cannot parse {}: {}", path, e);
            return 2;
        }
    };
    println!("replaying {}", doc.get("signature").and_then(|s| s.as_str()).unwrap_or("?"));
    println!("recorded: {}", doc.get("what").and_then(|s| s.as_str()).unwrap_or("?"));
    let Some(rp) = doc.get("replay") else { return 2 };
    let kind = rp.get("kind").and_then(|k| k.as_str()).unwrap_or("");
    if let Some(c) = rp.get("ctor").and_then(|k| k.as_str()) {
        // the case was recorded with decoders built by a further constructor of the tree
        use std::sync::atomic::Ordering::SeqCst;
        let found = [
            (&CTOR_SET1, extra_ctors_set1().iter().map(|x| format!("ScancodeSet1::{}", x.0)).collect::<Vec<_>>()),
            (&CTOR_SET2, extra_ctors_set2().iter().map(|x| format!("ScancodeSet2::{}", x.0)).collect::<Vec<_>>()),
            (&CTOR_PS2, extra_ctors_ps2().iter().map(|x| format!("Ps2Decoder::{}", x.0)).collect::<Vec<_>>()),
        ]
        .iter()
        .any(|(slot, names)| match names.iter().position(|n| n == c) {
            Some(i) => {
                slot.store(i + 1, SeqCst);
                true
            }
            None => false,
        });
        if !found {
            println!("the constructor {} the case was recorded with no longer exists", c);
            return 0;
        }
        println!("decoders built with {}", c);
    }
    let observed = rp.get("observed_last").and_then(|k| k.as_str()).unwrap_or("").to_string();
    let expected = rp.get("expected_last").and_then(|k| k.as_str()).unwrap_or("").to_string();
    let last: String = match kind {
        "bytes" => {
            let set = rp.get("set").and_then(|s| s.as_i64()).unwrap_or(2);
            let via = rp.get("via").and_then(|s| s.as_str()).unwrap_or("advance_state");
            let bytes = bytes_of(rp.get("bytes"));
            if set == 1 {
                trace_bytes::<ScancodeSet1>(&bytes, via)
            } else {
                trace_bytes::<ScancodeSet2>(&bytes, via)
            }
        }
        "byte-seqs" => {
            // several sequences fed one after the other to ONE decoder (C19's with-history cases) and each to a fresh one
            let set = rp.get("set").and_then(|s| s.as_i64()).unwrap_or(2);
            let seqs: Vec<Vec<u8>> = rp.get("seqs").and_then(|a| a.as_arr()).map(|a| a.iter().map(|x| bytes_of(Some(x))).collect()).unwrap_or_default();
            fn go<D: Dec>(seqs: &[Vec<u8>]) -> String {
                let mut shared = D::fresh();
                let mut outs = Vec::new();
                for s in seqs {
                    let mut fresh = D::fresh();
                    let (mut a, mut b) = (String::new(), String::new());
                    for x in s {
                        a = guarded(|| res_str(&shared.advance_state(*x))).unwrap_or_else(|_| "PANIC".into());
                        b = guarded(|| res_str(&fresh.advance_state(*x))).unwrap_or_else(|_| "PANIC".into());
                    }
                    println!("  [{}] on the shared decoder → {}   (on a fresh decoder → {})", hex_bytes(s), a, b);
                    outs.push(a);
                }
                outs.join(" / ")
            }
            let o = if set == 1 { go::<ScancodeSet1>(&seqs) } else { go::<ScancodeSet2>(&seqs) };
            println!("now observed: {}\nrecorded: expected {} / observed {}", o, expected, observed);
            return 2; // verdict is left to the signature search of ./check
        }
        "words" => {
            let mut last = String::new();
            for w in rp.get("words").and_then(|a| a.as_arr()).cloned().unwrap_or_default() {
                let w = w.as_i64().unwrap_or(0) as u16;
                let r = guarded(|| crate::scan::fresh_ps2().add_word(w));
                last = match r {
                    Ok(r) => crate::model::frame_res_str(&r),
                    Err(_) => "PANIC".into(),
                };
                println!("  add_word(0x{:03X}) → {}", w, last);
            }
            last
        }
        "bit-ops" => {
            let mut d = crate::scan::fresh_ps2();
            let mut last = String::new();
            for op in rp.get("ops").and_then(|a| a.as_arr()).cloned().unwrap_or_default() {
                let op = op.as_str().unwrap_or("").to_string();
                if op == "clear" {
                    d.clear();
                    println!("  clear() → {:?}", d);
                    last = format!("{:?}", d);
                } else if let Some(bits) = op.strip_prefix("bits:") {
                    for c in bits.chars() {
                        let r = guarded(|| d.add_bit(c == '1'));
                        last = match r {
                            Ok(Ok(None)) => "None".into(),
                            Ok(Ok(Some(b))) => format!("Ok(0x{:02X})", b),
                            Ok(Err(e)) => format!("Err({:?})", e),
                            Err(_) => "PANIC".into(),
                        };
                        println!("  add_bit({}) → {}   ({:?})", c, last, d);
                    }
                }
            }
            if observed.starts_with("Ps2Decoder") {
                last = format!("{:?}", d);
            }
            last
        }
        "kbd-ops" => {
            let set = rp.get("set").and_then(|s| s.as_i64()).unwrap_or(2);
            let li = rp.get("layout").and_then(|s| s.as_i64()).unwrap_or(0) as usize;
            let ops: Vec<KOp> = rp
                .get("ops")
                .and_then(|a| a.as_arr())
                .cloned()
                .unwrap_or_default()
                .iter()
                .filter_map(|o| o.as_str().and_then(KOp::parse))
                .collect();
            fn go<D: Dec>(li: usize, ops: &[KOp]) -> String {
                let mut tw: Twin<D> = Twin::new(li, HandleControl::MapLettersToUnicode);
                let mut ch = [[0u64; 3]; 6];
                let mut last = String::from("identical to three separately used stages");
                for op in ops {
                    match guarded(|| tw.apply(op, &mut ch)) {
                        Ok(None) => println!("  {} → agrees with the separate stages", op.show()),
                        Ok(Some(m)) => {
                            println!("  {} → MISMATCH ({}): {}", op.show(), m.what, m.detail);
                            last = m.detail;
                            break;
                        }
                        Err(p) => {
                            println!("  {} → PANIC {}", op.show(), p);
                            last = "PANIC".into();
                            break;
                        }
                    }
                }
                last
            }
            if set == 1 {
                go::<ScancodeSet1>(li, &ops)
            } else {
                go::<ScancodeSet2>(li, &ops)
            }
        }
        "layout" => {
            let li = layout_index(rp.get("layout").and_then(|s| s.as_str()).unwrap_or("")).unwrap_or(0);
            let form = FORM_NAMES.iter().position(|f| Some(*f) == rp.get("form").and_then(|s| s.as_str())).unwrap_or(0);
            let key = key_by_name(rp.get("key").and_then(|s| s.as_str()).unwrap_or("A")).unwrap_or(pc_keyboard::KeyCode::A);
            let mods = rp.get("mods").and_then(|s| s.as_i64()).unwrap_or(0) as u16;
            let mode = if rp.get("mode").and_then(|s| s.as_str()) == Some("Map") { 0 } else { 1 };
            let lay = layout_obj(li, form);
            let r = crate::cube::call_layout(lay.as_ref(), key, mods, mode);
            let uni = universe();
            let last = match r {
                Ok(e) => enc_str(e, &uni),
                Err(_) => "PANIC".into(),
            };
            println!("  {} ({}) map_keycode({:?}, {}, {}) → {}", layout_name(li), FORM_NAMES[form], key, mods_str(mods), mode_str(MODES[mode]), last);
            last
        }
        "events" => {
            // the layout and the initial Ctrl mode the case was recorded with (default: first layout, mapping on)
            let li = rp.get("layout").and_then(|s| s.as_str()).and_then(layout_index);
            let Some(li) = li.or(if rp.get("layout").is_none() { Some(0) } else { None }) else {
                println!("(the case was recorded over a layout this replay cannot rebuild)");
                return 2;
            };
            let init = if rp.get("initial_mode").and_then(|s| s.as_str()) == Some("Ignore") { HandleControl::Ignore } else { HandleControl::MapLettersToUnicode };
            let mut kb = Keyboard::new(ScancodeSet2::new(), dyn_layout(li, 0), init);
            let mut last_key = String::from("None");
            let mut last_mods = String::new();
            for op in rp.get("ops").and_then(|a| a.as_arr()).cloned().unwrap_or_default() {
                let op = op.as_str().unwrap_or("").to_string();
                if let Some(x) = extra_kb_op_names().iter().position(|n| *n == op) {
                    extra_kb_op!(kb, x);
                } else if let Some(rest) = op.strip_prefix("set_ctrl_handling(") {
                    kb.set_ctrl_handling(if rest.starts_with("Map") { HandleControl::MapLettersToUnicode } else { HandleControl::Ignore });
                } else if let Some(p) = op.find('(') {
                    let st = match &op[..p] {
                        "Down" => KeyState::Down,
                        "Up" => KeyState::Up,
                        _ => KeyState::SingleShot,
                    };
                    if let Some(k) = key_by_name(&op[p + 1..op.len() - 1]) {
                        let r = guarded(|| kb.process_keyevent(KeyEvent::new(k, st)));
                        last_key = match &r {
                            Ok(d) => odk_str(d),
                            Err(_) => "PANIC".into(),
                        };
                        println!("  {} → {}   modifiers {}", op, last_key, mods_str(bits_from_mods(kb.get_modifiers())));
                    }
                }
                last_mods = mods_str(bits_from_mods(kb.get_modifiers()));
            }
            // the recorded outcome is either a modifier record (C04) or a decoded key (C14 and the layout properties)
            println!("now observed: last decoded key {}, modifiers {}\nrecorded wrong outcome: {}\nexpected: {}", last_key, last_mods, observed, expected);
            if observed != expected && (observed == last_mods || observed == last_key) {
                println!("REPRODUCED");
                return 1;
            }
            if expected == last_mods || expected == last_key || expected.split('|').any(|e| e == last_key) {
                println!("NOT-REPRODUCED");
                return 0;
            }
            return 2;
        }
        _ => {
            println!("(no direct trace for case kind '{}')", kind);
            return 2;
        }
    };
    println!("now observed: {}\nrecorded wrong outcome: {}\nexpected: {}", last, observed, expected);
    if last == observed && last != expected {
        println!("REPRODUCED");
        1
    } else {
        println!("NOT-REPRODUCED");
        0
    }
}
