//! C05 — frame acceptance rule; C06 — bit-serial framing ≡ whole-word decoding, frames independent.

use crate::json::J;
use crate::keys::*;
use crate::layouts::{dyn_layout, DynLayout};
use crate::model::*;
use crate::report::*;
use crate::rng::Rng;
use crate::scan::*;
use pc_keyboard::{Error, HandleControl, Keyboard, Ps2Decoder, ScancodeSet1, ScancodeSet2};
use std::collections::{BTreeMap, BTreeSet, VecDeque};

type BitRes = Result<Option<u8>, Error>;

fn bitres_str(r: &BitRes) -> String {
    match r {
        Ok(None) => "None".into(),
        Ok(Some(b)) => format!("Ok(0x{:02X})", b),
        Err(e) => format!("Err({:?})", e),
    }
}
fn word_bits(w: u16) -> String {
    (0..11).map(|i| if (w >> i) & 1 == 1 { '1' } else { '0' }).collect()
}
fn frame_class(w: u16) -> &'static str {
    match frame_rule(w) {
        FrameVerdict::Data(_) => "valid",
        FrameVerdict::BadStart => "bad-start",
        FrameVerdict::BadStop => "bad-stop",
        FrameVerdict::Parity => "bad-parity",
    }
}

// =================================================================== C05

pub fn run_c05(rep: &mut Report) {
    frame_static_counter_wraps(rep, "C05", false);
    frame_static_counter_wraps(rep, "C05", true);
    let mut accepted = 0u64;
    let mut rejected: BTreeMap<&'static str, u64> = BTreeMap::new();
    let mut distinct: BTreeSet<(u16, String)> = BTreeSet::new();
    // ---- all 2048 words through Ps2Decoder::add_word
    for w in 0..2048u16 {
        let want = frame_expect(w);
        let got = guarded(|| crate::scan::fresh_ps2().add_word(w));
        rep.evaluations += 1;
        match got {
            Err(p) => {
                rep.panics += 1;
                rep.violate(
                    format!("C05|add_word|word=0x{:03X}|panic|{}", w, panic_sig(&p)),
                    format!("Ps2Decoder::add_word(0x{:03X}) panicked: {}", w, p),
                    replay_words(&[w], "ps2", &frame_res_str(&want), "PANIC"),
                );
            }
            Ok(g) => {
                if g != want {
                    rep.violate(
                        format!("C05|add_word|word=0x{:03X}|class={}|want={}|got={}", w, frame_class(w), frame_res_str(&want), frame_res_str(&g)),
                        format!(
                            "frame {} (start..stop, word 0x{:03X}, {}): rule says {}, Ps2Decoder::add_word returned {}",
                            word_bits(w),
                            w,
                            frame_class(w),
                            frame_res_str(&want),
                            frame_res_str(&g)
                        ),
                        replay_words(&[w], "ps2", &frame_res_str(&want), &frame_res_str(&g)),
                    );
                }
                match g {
                    Ok(_) => accepted += 1,
                    Err(_) => *rejected.entry(frame_class(w)).or_insert(0) += 1,
                }
                distinct.insert((w, frame_res_str(&g)));
            }
        }
    }
    for w in 0..2048u16 {
        let want = frame_expect(w);
        let got = guarded(|| Ps2Decoder::default().add_word(w));
        rep.evaluations += 1;
        if got.as_ref().ok() != Some(&want) {
            rep.violate(
                format!("C05|add_word(default-constructed)|word=0x{:03X}|want={}|got={:?}", w, frame_res_str(&want), got),
                format!("Ps2Decoder::default().add_word(0x{:03X}): rule says {}, got {:?}", w, frame_res_str(&want), got),
                replay_words(&[w], "ps2", &frame_res_str(&want), "other"),
            );
        }
    }
    rep.count("words_accepted", accepted);
    for (k, v) in &rejected {
        rep.count(&format!("words_rejected_{}", k), *v);
    }

    // ---- round trip, single- and double-bit corruptions of every valid frame
    let (mut rt, mut single, mut double, mut double_accepted) = (0u64, 0u64, 0u64, 0u64);
    for b in 0..=255u8 {
        let f = encode_frame(b);
        let got = guarded(|| crate::scan::fresh_ps2().add_word(f));
        rep.evaluations += 1;
        rt += 1;
        if got != Ok(Ok(b)) {
            rep.violate(
                format!("C05|roundtrip|byte=0x{:02X}|got={}", b, got.as_ref().map(frame_res_str).unwrap_or_else(|p| format!("PANIC({})", panic_sig(p)))),
                format!("byte 0x{:02X} encoded as the valid frame {} does not round-trip: {:?}", b, word_bits(f), got),
                replay_words(&[f], "ps2", &format!("Ok(0x{:02X})", b), "other"),
            );
        }
        if b % 50 == 7 {
            rep.sample_str(format!("byte 0x{:02X} → frame {} → add_word → {:?}", b, word_bits(f), got));
        }
        for i in 0..11 {
            let c = f ^ (1 << i);
            let got = guarded(|| crate::scan::fresh_ps2().add_word(c));
            rep.evaluations += 1;
            single += 1;
            if let Ok(Ok(x)) = got {
                rep.violate(
                    format!("C05|single-bit-corruption-accepted|byte=0x{:02X}|bit={}|got=Ok(0x{:02X})", b, i, x),
                    format!("valid frame of 0x{:02X} with bit {} flipped ({}) was accepted as 0x{:02X}", b, i, word_bits(c), x),
                    replay_words(&[c], "ps2", "an error", &format!("Ok(0x{:02X})", x)),
                );
            }
            for j in (i + 1)..11 {
                let c2 = f ^ (1 << i) ^ (1 << j);
                let want = frame_expect(c2);
                let got = guarded(|| crate::scan::fresh_ps2().add_word(c2));
                rep.evaluations += 1;
                double += 1;
                if let Ok(Ok(_)) = got {
                    double_accepted += 1;
                }
                if got != Ok(want) {
                    rep.violate(
                        format!("C05|add_word|word=0x{:03X}|class={}|want={}|got={:?}", c2, frame_class(c2), frame_res_str(&want), got),
                        format!("double-bit corruption (bits {} and {}) of the frame of 0x{:02X}: rule says {}, got {:?}", i, j, b, frame_res_str(&want), got),
                        replay_words(&[c2], "ps2", &frame_res_str(&want), "other"),
                    );
                }
            }
        }
    }
    rep.count("roundtrips", rt);
    rep.count("single_bit_corruptions_all_rejected", single);
    rep.count("double_bit_corruptions", double);
    rep.count("double_bit_corruptions_legitimately_accepted_as_another_byte", double_accepted);

    // ---- the same rule through the bit-serial entry point: every frame on a fresh decoder and directly
    //      after one frame of each class (a valid frame must yield its byte whatever came before)
    let prevs: [(&str, Option<u16>); 5] = [
        ("fresh", None),
        ("after-valid-frame", Some(encode_frame(0x5A))),
        ("after-bad-start-frame", Some(0x7FF)),
        ("after-bad-stop-frame", Some(0x000)),
        ("after-bad-parity-frame", Some(encode_frame(0xFE) ^ 0x200)),
    ];
    let mut serial = 0u64;
    // (history name, bits shifted in first, clear() afterwards?)
    let mut hist: Vec<(String, Vec<bool>, bool)> = Vec::new();
    for (pname, prev) in prevs.iter() {
        hist.push((pname.to_string(), prev.map(|p| (0..11).map(|i| (p >> i) & 1 == 1).collect()).unwrap_or_default(), false));
    }
    // an abandoned partial frame followed by clear(): 1..10 bits of a valid frame and of one with bad parity
    for (nm, f) in [("valid", encode_frame(0xA5)), ("bad-parity", encode_frame(0x01) ^ 0x200), ("all-ones", 0x7FFu16)] {
        for k in [1usize, 5, 9, 10] {
            hist.push((format!("after-{}-bits-of-a-{}-frame-then-clear", k, nm), (0..k).map(|i| (f >> i) & 1 == 1).collect(), true));
        }
    }
    hist.push(("default-constructed".to_string(), Vec::new(), false));
    for (pname, pbits, clear) in hist.iter() {
        for w in 0..2048u16 {
            let want: BitRes = frame_expect(w).map(Some);
            let got = guarded(|| {
                let mut d = if pname == "default-constructed" { Ps2Decoder::default() } else { crate::scan::fresh_ps2() };
                for b in pbits {
                    let _ = d.add_bit(*b);
                }
                if *clear {
                    d.clear();
                }
                let mut last = Ok(None);
                for i in 0..11 {
                    last = d.add_bit((w >> i) & 1 == 1);
                }
                last
            });
            rep.evaluations += 1;
            serial += 1;
            let gs = match &got {
                Ok(g) => bitres_str(g),
                Err(p) => format!("PANIC({})", panic_sig(p)),
            };
            if got.as_ref().ok() != Some(&want) {
                let mut ops = Vec::new();
                if !pbits.is_empty() {
                    ops.push(format!("bits:{}", pbits.iter().map(|b| if *b { '1' } else { '0' }).collect::<String>()));
                }
                if *clear {
                    ops.push("clear".to_string());
                }
                ops.push(format!("bits:{}", word_bits(w)));
                rep.violate(
                    format!("C05|add_bit|prev={}|word=0x{:03X}|class={}|want={}|got={}", pname, w, frame_class(w), bitres_str(&want), gs),
                    format!("frame {} ({}) shifted in bit by bit {}: rule says {}, the 11th add_bit returned {}", word_bits(w), frame_class(w), pname, bitres_str(&want), gs),
                    replay_bits(&ops, &bitres_str(&want), &gs),
                );
            }
        }
    }
    rep.count("frames_through_add_bit_fresh_and_after_each_frame_class", serial);

    // ---- after a very long run of rejected frames on one decoder (a stuck line): every frame, one after the other,
    //      must still be judged by the rule
    for (pname, w, n) in [("after-140000-bad-stop-frames", 0x000u16, 140_000u32), ("after-140000-bad-start-frames", 0x7FF, 140_000), ("after-70000-bad-parity-frames", encode_frame(0x33) ^ 0x200, 70_000)] {
        let r = guarded(|| {
            let mut d = crate::scan::fresh_ps2();
            for _ in 0..n {
                for i in 0..11 {
                    let _ = d.add_bit((w >> i) & 1 == 1);
                }
            }
            let mut bad = None;
            for f in 0..2048u16 {
                let mut last = Ok(None);
                for i in 0..11 {
                    last = d.add_bit((f >> i) & 1 == 1);
                }
                let want: BitRes = frame_expect(f).map(Some);
                if last != want && bad.is_none() {
                    bad = Some((f, bitres_str(&want), bitres_str(&last)));
                }
            }
            bad
        });
        rep.evaluations += 2048;
        match r {
            Ok(None) => {}
            Ok(Some((f, want, got))) => rep.violate(
                format!("C05|add_bit|prev={}|word=0x{:03X}|class={}|want={}|got={}", pname, f, frame_class(f), want, got),
                format!("frame {} ({}) shifted in bit by bit {}: rule says {}, the 11th add_bit returned {}", word_bits(f), frame_class(f), pname, want, got),
                J::obj().with("kind", J::s("long-run")).with("word", J::u(w as u64)).with("copies", J::u(n as u64)),
            ),
            Err(p) => rep.violate(format!("C05|add_bit|prev={}|panic|{}", pname, panic_sig(&p)), format!("panicked {}: {}", pname, p), J::Null),
        }
    }

    // ---- add_word takes a u16: whatever a tree does with junk above bit 10 (the documentation speaks of the bottom 11 bits
    //      only), a word that is ACCEPTED must carry a valid frame in its bottom 11 bits and yield that frame's data byte
    {
        let mut accepted_upper = 0u64;
        for w in 0x800..=u16::MAX {
            let got = guarded(|| crate::scan::fresh_ps2().add_word(w));
            rep.evaluations += 1;
            if let Ok(Ok(b)) = got {
                accepted_upper += 1;
                let low = w & 0x7FF;
                if frame_expect(low) != Ok(b) {
                    rep.violate(
                        format!("C05|add_word|upper-bits|class={}|want={}|got=Ok(0x{:02X})", frame_class(low), frame_res_str(&frame_expect(low)), b),
                        format!("Ps2Decoder::add_word(0x{:04X}) accepted the word and returned 0x{:02X}, but its frame (bottom 11 bits {}) is {}: the rule gives {}", w, b, word_bits(low), frame_class(low), frame_res_str(&frame_expect(low))),
                        replay_words(&[w], "Ps2Decoder::add_word", &frame_res_str(&frame_expect(low)), &format!("Ok(0x{:02X})", b)),
                    );
                }
            }
        }
        rep.count("words_with_bits_above_bit_10_that_were_accepted_and_checked", accepted_upper);
    }

    clean_run_then_fault(rep, "C05", frame_expect);
    copies_then_every_frame(rep, "C05", frame_expect);
    shifted_bursts(rep, "C05", frame_expect);

    // ---- add_word takes &self and the type is Sync: one decoder shared by reference between threads must judge every word by
    //      the rule, whatever the other threads are feeding it at the same time
    {
        let shared = crate::scan::fresh_ps2();
        let threads = crate::scan::n_threads().max(4);
        let per_thread: u32 = if rep.thorough() { 4_000_000 } else { 400_000 };
        // (if a tree makes the decoder !Sync, that is C20's matter: the sharing is then simply not attempted here)
        #[allow(unused_imports)]
        use crate::scan::{NotShared, SharedIfSync, Shareable};
        let work = move |d: &Ps2Decoder, t: usize| -> Vec<(u16, String, String)> {
            let mut out = Vec::new();
            let _ = guarded(|| {
                let mut x = (t as u32).wrapping_mul(0x9E37_79B9) | 1;
                // each thread keeps to a handful of valid frames of its own plus some corrupt ones
                let mine: Vec<u16> = (0..6u32).map(|i| encode_frame((t as u32 * 37 + i * 11) as u8)).chain([0x7FF, encode_frame(t as u8) ^ 0x200]).collect();
                for _ in 0..per_thread {
                    x ^= x << 13;
                    x ^= x >> 17;
                    x ^= x << 5;
                    let w = mine[x as usize % mine.len()];
                    let got = d.add_word(w);
                    let want = frame_expect(w);
                    if got != want && out.len() < 3 {
                        out.push((w, frame_res_str(&want), frame_res_str(&got)));
                    }
                }
            });
            out
        };
        let bad: Vec<Vec<(u16, String, String)>> = (&Shareable(&shared)).on_threads(threads, &work).unwrap_or_default();
        rep.evaluations += threads as u64 * per_thread as u64;
        rep.count("add_word_calls_on_one_decoder_shared_between_threads", threads as u64 * per_thread as u64);
        for v in bad {
            for (w, want, got) in v {
                rep.violate(
                    format!("C05|add_word|shared-between-threads|class={}|want={}|got={}", frame_class(w), want, if got.starts_with("Ok") { "Ok(other byte)".to_string() } else { got.clone() }),
                    format!("one Ps2Decoder shared by reference between {} threads: add_word(0x{:03X}) ({}) returned {}; the rule gives {}", threads, w, frame_class(w), got, want),
                    J::obj().with("kind", J::s("concurrent-objects")).with("threads", J::u(threads as u64)).with("word", J::u(w as u64)),
                );
            }
        }
    }

    // ---- Keyboard::add_word = frame rule ∘ scancode decoder, in every scancode prefix state
    // Keyboard::add_word feeds the scancode stage with every byte in every prefix state: run it in a child process, so
    // that a tree whose scancode decoder aborts on garbage does not take this (frame-rule) check down with it
    run_part_in_child(rep, "c05-keyboard-add-word");

    rep.distinct_nontrivial = distinct.len() as u64;
    rep.exhaustive = Some(true);
    rep.rule = "all 2048 11-bit words through Ps2Decoder::add_word against an independent frame rule; every valid frame's 11 single-bit and 55 double-bit corruptions; \
                Keyboard::add_word in every scancode prefix state against rule∘twin decoder; distinct_nontrivial = distinct (word, outcome) pairs observed"
        .into();
    rep.sample_str(format!("frame {} (0x402) = start 0, data 0x01, parity 0, stop 1 → {:?}", word_bits(0x402), crate::scan::fresh_ps2().add_word(0x402)));
    rep.sample_str(format!("frame {} (0x403) → {:?}", word_bits(0x403), crate::scan::fresh_ps2().add_word(0x403)));
    rep.sample_str(format!("frame {} (0x002) → {:?}", word_bits(0x002), crate::scan::fresh_ps2().add_word(0x002)));
    rep.sample_str(format!("frame {} (0x602) → {:?}", word_bits(0x602), crate::scan::fresh_ps2().add_word(0x602)));
    rep.assumptions.push("frame layout as documented on add_word: start bit 0, data bits 1..8 LSB first, parity bit 9 (odd), stop bit 10; words with bits above bit 10 are outside the precondition (driven for C08 only)".into());
}

fn replay_words(ws: &[u16], target: &str, want: &str, got: &str) -> J {
    J::obj()
        .with("kind", J::s("words"))
        .with("target", J::s(target))
        .with("words", J::Arr(ws.iter().map(|w| J::u(*w as u64)).collect()))
        .with("expected_last", J::s(want))
        .with("observed_last", J::s(got))
}

/// body of the child process `monitor --part c05-keyboard-add-word`
pub fn part_kb_add_word(rep: &mut Report) {
    kb_add_word::<ScancodeSet2>(rep);
    kb_add_word::<ScancodeSet1>(rep);
}

/// Run one part of a monitor in a child process and merge what it reports.  If the child is killed (the crate
/// aborted), the part is recorded as abandoned – a crash is reported by C08, not by whichever check happened to run.
pub fn run_part_in_child(rep: &mut Report, part: &str) {
    let exe = match std::env::current_exe() {
        Ok(e) => e,
        Err(_) => return,
    };
    let out = std::process::Command::new(exe).args(["--part", part, "--tier", &rep.tier, "--seed", &rep.seed.to_string()]).output();
    let Ok(out) = out else {
        rep.notes.push(format!("part {} could not be started", part));
        return;
    };
    if !out.status.success() {
        rep.notes.push(format!("part {} abandoned: the child process was killed while driving the crate (exit {:?}) – a C08 matter", part, out.status.code()));
        rep.count("parts_abandoned_because_the_crate_aborted", 1);
        return;
    }
    let txt = String::from_utf8_lossy(&out.stdout).to_string();
    let Ok(doc) = crate::json::parse(&txt) else {
        rep.inconclusive(format!("part {} produced unreadable output", part));
        return;
    };
    if let Some(vs) = doc.get("violations").and_then(|v| v.as_arr()) {
        for v in vs {
            rep.violate(
                v.get("sig").and_then(|x| x.as_str()).unwrap_or("?").to_string(),
                v.get("what").and_then(|x| x.as_str()).unwrap_or("").to_string(),
                v.get("replay").cloned().unwrap_or(J::Null),
            );
        }
    }
    if let Some(cov) = doc.get("coverage") {
        rep.evaluations += cov.get("evaluations").and_then(|x| x.as_i64()).unwrap_or(0) as u64;
        rep.panics += cov.get("panics_caught").and_then(|x| x.as_i64()).unwrap_or(0) as u64;
        if let Some(J::Obj(items)) = cov.get("counters") {
            for (k, v) in items {
                rep.count(k, v.as_i64().unwrap_or(0) as u64);
            }
        }
    }
    for w in doc.get("inconclusive").and_then(|v| v.as_arr()).cloned().unwrap_or_default() {
        if let Some(w) = w.as_str() {
            rep.inconclusive(w.to_string());
        }
    }
}

fn kb_add_word<D: Dec>(rep: &mut Report) {
    let set = D::SET;
    // reach every scancode state by its prefix bytes
    let prefixes: Vec<Vec<u8>> = if set == 2 {
        vec![vec![], vec![0xE0], vec![0xE1], vec![0xF0], vec![0xE0, 0xF0], vec![0xE1, 0xF0]]
    } else {
        vec![vec![], vec![0xE0], vec![0xE1]]
    };
    let mut n = 0u64;
    for p in &prefixes {
        for w in 0..2048u16 {
            // each side in its own guarded section: a panic of the scancode stage hits both alike and is C08's matter
            let got = guarded(|| {
                let mut kb: Keyboard<DynLayout, D> = Keyboard::new(D::fresh(), dyn_layout(0, 0), HandleControl::Ignore);
                for b in p {
                    let _ = kb.add_byte(*b);
                }
                kb.add_word(w)
            });
            let want = guarded(|| {
                let mut twin = D::fresh();
                for b in p {
                    let _ = twin.advance_state(*b);
                }
                match frame_expect(w) {
                    Ok(b) => twin.advance_state(b),
                    Err(e) => Err(e),
                }
            });
            rep.evaluations += 1;
            n += 1;
            let show = |r: &Result<Res, String>| match r {
                Ok(r) => res_str(r),
                Err(_) => "PANIC".to_string(),
            };
            if got.as_ref().ok() != want.as_ref().ok() || got.is_err() != want.is_err() {
                rep.violate(
                    format!("C05|Keyboard::add_word|{}|prefix=[{}]|word=0x{:03X}|want={}|got={}", set_name(set), hex_bytes(p), w, show(&want), show(&got)),
                    format!(
                        "Keyboard<_, {}>::add_word(0x{:03X}) after bytes [{}]: frame rule + scancode decoder say {}, got {}",
                        set_name(set),
                        w,
                        hex_bytes(p),
                        show(&want),
                        show(&got)
                    ),
                    J::obj()
                        .with("kind", J::s("kbd-ops"))
                        .with("set", J::u(set as u64))
                        .with("ops", J::Arr(p.iter().map(|b| J::s(format!("byte:{}", b))).chain(std::iter::once(J::s(format!("word:{}", w)))).collect()))
                        .with("expected_last", J::s(show(&want)))
                        .with("observed_last", J::s(show(&got))),
                );
            }
        }
    }
    rep.count(&format!("keyboard_add_word_{}_state_x_word", set_name(set)), n);
}

// =================================================================== C06

/// C06's oracle for a completed frame is the crate's own whole-word decoding (the property is the *equivalence* of
/// the two entry points; whether whole-word decoding follows the frame rule is C05's subject).
fn whole_word(w: u16) -> Result<u8, Error> {
    crate::scan::fresh_ps2().add_word(w)
}

#[derive(Default)]
struct Out {
    structural_only: u64,
    judged: std::collections::HashMap<String, Option<String>>,
    add_bits: u64,
    frames: u64,
    clears: u64,
    violations: Vec<(String, String, J)>,
    panics: u64,
}

fn replay_bits(ops: &[String], want: &str, got: &str) -> J {
    J::obj()
        .with("kind", J::s("bit-ops"))
        .with("ops", J::strs(ops.iter().cloned()))
        .with("expected_last", J::s(want))
        .with("observed_last", J::s(got))
}

fn replay_ops(ops: &[String]) -> Ps2Decoder {
    let mut d = crate::scan::fresh_ps2();
    for op in ops {
        if op == "clear" {
            d.clear();
        } else if let Some(bits) = op.strip_prefix("bits:") {
            for c in bits.chars() {
                let _ = d.add_bit(c == '1');
            }
        }
    }
    d
}

/// Behavioural test of "nothing leaks into the next frame": after the history `ops` (which ends on a frame
/// boundary or a clear()), every one of the 2048 frames – and a few frames after it – must decode by the rule.
/// The Debug rendering differing from a fresh decoder's is only the trigger for this test: a tree may carry
/// extra state that never influences a later frame, which the property allows.
fn leak_after(ops: &[String]) -> Option<String> {
    let followers = [encode_frame(0x00), encode_frame(0xFF), 0x7FFu16, encode_frame(0x1C)];
    for w in 0..2048u16 {
        let r = guarded(|| {
            let mut d = replay_ops(ops);
            let mut frames = vec![w];
            frames.extend(followers.iter());
            for (fi, f) in frames.iter().enumerate() {
                for i in 0..11 {
                    let r = d.add_bit((f >> i) & 1 == 1);
                    let want: BitRes = if i < 10 { Ok(None) } else { whole_word(*f).map(Some) };
                    if r != want {
                        return Some(format!(
                            "after that history, frame {} (#{} after it), bit {}: got {} where the rule gives {}",
                            word_bits(*f),
                            fi + 1,
                            i + 1,
                            bitres_str(&r),
                            bitres_str(&want)
                        ));
                    }
                }
            }
            None
        });
        match r {
            Ok(None) => {}
            Ok(Some(m)) => return Some(m),
            Err(p) => return Some(format!("panic while decoding the next frame: {}", p)),
        }
    }
    None
}

fn leak_after_default() -> Option<String> {
    for w in 0..2048u16 {
        let r = guarded(|| {
            let mut d = Ps2Decoder::default();
            let mut last = Ok(None);
            for i in 0..11 {
                last = d.add_bit((w >> i) & 1 == 1);
            }
            last
        });
        let want: BitRes = whole_word(w).map(Some);
        if r.as_ref().ok() != Some(&want) {
            return Some(format!("frame {} gives {:?} where the rule gives {}", word_bits(w), r, bitres_str(&want)));
        }
    }
    None
}

/// Shift the 11 bits of `w` into `d`; check results 1..10 are None and the 11th equals the
/// whole-word result; check the decoder renders as fresh afterwards.
fn feed_and_check(d: &mut Ps2Decoder, w: u16, prev: &str, prev_ops: &dyn Fn() -> Vec<String>, fresh_dbg: &str, check_state: bool, out: &mut Out) -> bool {
    let mut ok = true;
    for i in 0..11 {
        let bit = (w >> i) & 1 == 1;
        let r = d.add_bit(bit);
        out.add_bits += 1;
        if i < 10 {
            if r != Ok(None) {
                let mut ops = prev_ops();
                ops.push(format!("bits:{}", &word_bits(w)[..=i]));
                out.violations.push((
                    format!("C06|early-result|prev={}|bit#{}|got={}", prev, i + 1, bitres_str(&r)),
                    format!("bit {} of frame {} ({}) returned {} instead of 'incomplete'", i + 1, word_bits(w), prev, bitres_str(&r)),
                    replay_bits(&ops, "None", &bitres_str(&r)),
                ));
                return false;
            }
        } else {
            let want_word: BitRes = whole_word(w).map(Some);
            let want_rule: BitRes = want_word;
            if r != want_word {
                let mut ops = prev_ops();
                ops.push(format!("bits:{}", word_bits(w)));
                out.violations.push((
                    format!("C06|serial-vs-word|prev={}|word=0x{:03X}|want={}|got={}", prev, w, bitres_str(&want_word), bitres_str(&r)),
                    format!(
                        "frame {} shifted in bit by bit ({}) returned {}; whole-word decoding of the same 11 bits returns {} (frame rule: {})",
                        word_bits(w),
                        prev,
                        bitres_str(&r),
                        bitres_str(&want_word),
                        bitres_str(&want_rule)
                    ),
                    replay_bits(&ops, &bitres_str(&want_word), &bitres_str(&r)),
                ));
                ok = false;
            }
        }
    }
    out.frames += 1;
    if check_state {
        let s = format!("{:?}", d);
        if s != fresh_dbg {
            let mut ops = prev_ops();
            ops.push(format!("bits:{}", word_bits(w)));
            if !out.judged.contains_key(&s) {
                out.judged.insert(s.clone(), leak_after(&ops));
            }
            if let Some(leak) = out.judged[&s].clone() {
                out.violations.push((
                    format!("C06|state-not-fresh-after-frame|class={}|state={}", frame_class(w), s),
                    format!("after the complete ({}) frame {} the decoder is {} instead of {}, and it leaks: {}", frame_class(w), word_bits(w), s, fresh_dbg, leak),
                    replay_bits(&ops, fresh_dbg, &s),
                ));
                ok = false;
            } else {
                out.structural_only += 1;
            }
        }
    }
    ok
}

/// More than 2^32 bits through one decoder, every 11th-bit result verified (a free-running 32-bit counter wraps here).
/// Inherently sequential (~8 s), so it runs on its own thread beside the rest of the C06 monitor.
fn run_2_32_bits() -> (u64, Option<(String, String)>) {
    let total_frames: u64 = if light() { 2_000_000 } else { (1u64 << 32) / 11 + 200_000 };
    let r = guarded(|| {
        let mut d = crate::scan::fresh_ps2();
        let f = [encode_frame(0x1C), encode_frame(0xF0), 0x7FFu16, encode_frame(0x5A)];
        let wants: Vec<BitRes> = f.iter().map(|w| whole_word(*w).map(Some)).collect();
        for n in 0..total_frames {
            let k = (n & 3) as usize;
            let w = f[k];
            for i in 0..11 {
                let r = d.add_bit((w >> i) & 1 == 1);
                if i < 10 {
                    if r != Ok(None) {
                        return Some((n, i, bitres_str(&r)));
                    }
                } else if r != wants[k] {
                    return Some((n, i, bitres_str(&r)));
                }
            }
        }
        None
    });
    let v = match r {
        Ok(None) => None,
        Ok(Some((n, i, got))) => Some((
            format!("C06|2^32-run|bit#{}|got={}", i + 1, got),
            format!("after {} frames ({} bits) on one decoder, bit {} of the next frame returned {}", n, n * 11, i + 1, got),
        )),
        Err(p) => Some((format!("C06|panic|2^32-run|{}", panic_sig(&p)), format!("the 2^32-bit run panicked: {}", p))),
    };
    (total_frames * 11, v)
}

/// N copies of one frame (an idle line of all ones, a stuck-low line, a key held), then EVERY frame: the follower must be
/// judged on its own 11 bits.  (C05: by the frame rule; C06: by whole-word decoding of the same bits.)
fn copies_then_every_frame(rep: &mut Report, prop: &str, oracle: fn(u16) -> Result<u8, Error>) {
    let firsts: [u16; 5] = [0x7FF, 0x000, encode_frame(0x1C), encode_frame(0x1C) ^ 0x200, 0x3FF];
    let mut judged = 0u64;
    for x in firsts {
        for copies in [3usize, 4, 5, 6, 8, 16, 40] {
            let r = guarded(|| {
                let mut bad: Option<(u16, usize, String, String)> = None;
                for y in 0..2048u16 {
                    let mut d = crate::scan::fresh_ps2();
                    for _ in 0..copies {
                        for i in 0..11 {
                            let _ = d.add_bit((x >> i) & 1 == 1);
                        }
                    }
                    // the follower, then a valid frame behind it (alignment)
                    for (w, _) in [(y, 0), (encode_frame(0xF0), 1)] {
                        for i in 0..11 {
                            let got = d.add_bit((w >> i) & 1 == 1);
                            let want: BitRes = if i < 10 { Ok(None) } else { oracle(w).map(Some) };
                            if got != want && bad.is_none() {
                                bad = Some((y, i, bitres_str(&want), bitres_str(&got)));
                            }
                        }
                    }
                }
                bad
            });
            judged += 2048 * 2;
            match r {
                Ok(None) => {}
                Ok(Some((y, i, want, got))) => rep.violate(
                    format!("{}|add_bit|prev={}-copies-of-a-{}-frame|class={}|bit#{}|want={}|got={}", prop, copies, frame_class(x), frame_class(y), i + 1, want, got),
                    format!("after {} copies of frame {} ({}) the frame {} ({}) or the valid frame behind it: bit {} returned {}; expected {}", copies, word_bits(x), frame_class(x), word_bits(y), frame_class(y), i + 1, got, want),
                    J::obj().with("kind", J::s("copies-then-frame")).with("first", J::u(x as u64)).with("copies", J::u(copies as u64)).with("follower", J::u(y as u64)),
                ),
                Err(p) => rep.violate(format!("{}|add_bit|prev={}-copies|panic|{}", prop, copies, panic_sig(&p)), format!("panicked after {} copies of frame {}: {}", copies, word_bits(x), p), J::Null),
            }
        }
    }
    rep.evaluations += judged;
    rep.count("frames_judged_after_copies_of_one_frame", judged);
}

/// The frames a keyboard sends outside typing (ACK, self-test passed, resend, echo, identify bytes, prefixes …) arriving
/// *shifted* against the decoder's 11-bit grouping: z stray bits of one polarity (a line held low / idle high), two or
/// three such frames back to back, idle padding up to the next group boundary, then valid and invalid frames.  Every
/// aligned group of eleven bits is judged: ten times 'incomplete', then the verdict on those eleven bits.
fn shifted_bursts(rep: &mut Report, prop: &str, oracle: fn(u16) -> Result<u8, Error>) {
    const CTL: [u8; 12] = [0xFA, 0xAA, 0xFE, 0xEE, 0x00, 0xAB, 0x83, 0xF0, 0xE0, 0xE1, 0xFC, 0xFF];
    let mut judged = 0u64;
    let mut reported = 0;
    for z in 0..=21usize {
        for pol in [false, true] {
            for c1 in CTL {
                for c2 in CTL {
                    for c3 in std::iter::once(None).chain(CTL.iter().map(|c| Some(*c))) {
                        let mut bits: Vec<bool> = vec![pol; z];
                        for c in [Some(c1), Some(c2), c3].into_iter().flatten() {
                            let w = encode_frame(c);
                            bits.extend((0..11).map(|i| (w >> i) & 1 == 1));
                        }
                        while bits.len() % 11 != 0 {
                            bits.push(true);
                        }
                        for w in [encode_frame(0x07), encode_frame(0x1C) ^ 0x200, encode_frame(0xF0)] {
                            bits.extend((0..11).map(|i| (w >> i) & 1 == 1));
                        }
                        let r = guarded(|| {
                            let mut d = crate::scan::fresh_ps2();
                            for (g, grp) in bits.chunks(11).enumerate() {
                                let mut w = 0u16;
                                for (i, b) in grp.iter().enumerate() {
                                    w |= (*b as u16) << i;
                                    let got = d.add_bit(*b);
                                    let want: BitRes = if i < 10 { Ok(None) } else { oracle(w).map(Some) };
                                    if got != want {
                                        return Some((g, i, bitres_str(&want), bitres_str(&got)));
                                    }
                                }
                            }
                            None
                        });
                        judged += (bits.len() / 11) as u64;
                        if let Ok(Some((g, i, want, got))) = r {
                            reported += 1;
                            if reported <= 20 {
                                let shown: String = bits.iter().map(|b| if *b { '1' } else { '0' }).collect();
                                rep.violate(
                                    format!("{}|add_bit|shifted-burst|stray={}x{}|frames={:02X},{:02X},{:?}|group#{}|bit#{}|want={}|got={}", prop, z, pol as u8, c1, c2, c3, g, i + 1, want, got),
                                    format!("bit stream {} ({} stray {} bits, then the frames of {:02X} {:02X} {:?}, idle padding, three more frames): in group {} of eleven bits, bit {} returned {}; expected {}", shown, z, pol as u8, c1, c2, c3, g + 1, i + 1, got, want),
                                    J::obj().with("kind", J::s("bit-stream")).with("bits", J::s(shown)),
                                );
                            }
                        }
                    }
                }
            }
        }
    }
    rep.evaluations += judged;
    rep.count("groups_of_eleven_bits_judged_in_shifted_bursts_of_controller_frames", judged);
}

/// A line that has been clean for a long time, then one bad frame, then every class of frame (C05: judged by the frame
/// rule; C06: by the crate's own whole-word decoding of the same 11 bits).
fn clean_run_then_fault(rep: &mut Report, prop: &str, oracle: fn(u16) -> Result<u8, Error>) {
    // ---- a line that has been clean for a long time, then one bad frame, then every class of frame: each aligned group
    //      of 11 bits must still be judged by the rule (a decoder that "re-aligns" after trouble on a proven-good line)
    {
        let follow: [u16; 12] = [0x7FF, 0x001, 0x401, encode_frame(0x5A) | 1, encode_frame(0x1C), encode_frame(0xF0), encode_frame(0x00), encode_frame(0xFF), encode_frame(0x77) ^ 0x200, 0x000, 0x3FF, 0x400];
        let faults: [(&str, u16); 3] = [("bad-start", encode_frame(0x2B) | 1), ("bad-stop", encode_frame(0x2B) & !0x400), ("bad-parity", encode_frame(0x2B) ^ 0x200)];
        let mut groups = 0u64;
        for clean in [64u32, 1000, 4200, 70_000] {
            for (fname, fault) in faults.iter() {
                for fw in follow.iter() {
                    let r = guarded(|| {
                        let mut d = crate::scan::fresh_ps2();
                        let mut seq: Vec<u16> = Vec::new();
                        let mut n = 0u64;
                        let mut bad = None;
                        let feed = |d: &mut Ps2Decoder, w: u16, idx: u64, bad: &mut Option<(u64, u16, usize, String, String)>| {
                            for i in 0..11 {
                                let got = d.add_bit((w >> i) & 1 == 1);
                                let want: BitRes = if i < 10 { Ok(None) } else { oracle(w).map(Some) };
                                if got != want && bad.is_none() {
                                    *bad = Some((idx, w, i, bitres_str(&want), bitres_str(&got)));
                                }
                            }
                        };
                        for k in 0..clean {
                            feed(&mut d, encode_frame((k % 251) as u8), n, &mut bad);
                            n += 1;
                        }
                        seq.push(*fault);
                        seq.push(*fw);
                        seq.extend([encode_frame(0x1C), encode_frame(0xF0), encode_frame(0x1C)]);
                        for w in seq {
                            feed(&mut d, w, n, &mut bad);
                            n += 1;
                        }
                        (n, bad)
                    });
                    match r {
                        Ok((n, bad)) => {
                            groups += n;
                            if let Some((idx, w, i, want, got)) = bad {
                                let pos = if idx < clean as u64 { "in the clean run".to_string() } else { format!("#{} after the clean run", idx - clean as u64 + 1) };
                                rep.violate(
                                    format!("{}|add_bit|prev=after-{}-good-frames-and-a-{}-frame|class={}|bit#{}|want={}|got={}", prop, clean, fname, frame_class(w), i + 1, want, got),
                                    format!("after {} accepted frames, one {} frame and then frame {}: frame {} ({}, {}), bit {} returned {}; expected {}", clean, fname, word_bits(*fw), word_bits(w), frame_class(w), pos, i + 1, got, want),
                                    J::obj().with("kind", J::s("clean-run-then-fault")).with("clean_frames", J::u(clean as u64)).with("fault", J::s(*fname)).with("follow_up", J::u(*fw as u64)),
                                );
                            }
                        }
                        Err(p) => rep.violate(format!("{}|add_bit|prev=after-{}-good-frames|panic|{}", prop, clean, panic_sig(&p)), format!("panicked after {} accepted frames and a {} frame: {}", clean, fname, p), J::Null),
                    }
                }
            }
        }
        rep.evaluations += groups;
        rep.count("frames_judged_in_clean_run_then_fault_histories", groups);
    }
}

/// Counters in static memory behind the frame decoder (hidden.rs), driven across their wrap-arounds while frames go in
/// bit by bit (`serial`, C06's oracle: the crate's own whole-word decoding) or word by word (C05's oracle: the frame rule).
fn frame_static_counter_wraps(rep: &mut Report, prop: &str, serial: bool) {
    let frames: [u16; 6] = [encode_frame(0x1C), encode_frame(0xF0) ^ 0x200, 0x7FF, encode_frame(0x5A), 0x000, encode_frame(0xE0) ^ 0x001];
    let mut d = crate::scan::fresh_ps2();
    let (mut fi, mut bi) = (0usize, 0usize);
    let prop = prop.to_string();
    let mut step = || -> Option<(String, String)> {
        let w = frames[fi];
        if !serial {
            fi = (fi + 1) % frames.len();
            let want = frame_expect(w);
            let got = guarded(|| crate::scan::fresh_ps2().add_word(w));
            let gs = match &got {
                Ok(g) => frame_res_str(g),
                Err(p) => format!("PANIC({})", panic_sig(p)),
            };
            if got.as_ref().ok() != Some(&want) {
                return Some((
                    format!("{}|static-counter-wrap|add_word|class={}|want={}|got={}", prop, frame_class(w), frame_res_str(&want), gs),
                    format!("Ps2Decoder::add_word(0x{:03X}) returned {}; the frame rule gives {}", w, gs, frame_res_str(&want)),
                ));
            }
            return None;
        }
        let bit = (w >> bi) & 1 == 1;
        // C05 judges by the frame rule, C06 by the crate's own whole-word decoding of the same bits
        let want: BitRes = if bi < 10 {
            Ok(None)
        } else if prop == "C05" {
            frame_expect(w).map(Some)
        } else {
            whole_word(w).map(Some)
        };
        let got = guarded(|| d.add_bit(bit));
        let at = bi;
        bi += 1;
        if bi == 11 {
            bi = 0;
            fi = (fi + 1) % frames.len();
        }
        let gs = match &got {
            Ok(g) => bitres_str(g),
            Err(p) => format!("PANIC({})", panic_sig(p)),
        };
        if got.as_ref().ok() != Some(&want) {
            d = crate::scan::fresh_ps2();
            bi = 0;
            return Some((
                format!("{}|static-counter-wrap|add_bit|bit#{}|want={}|got={}", prop, at + 1, bitres_str(&want), gs),
                format!("frame {} through add_bit: bit {} returned {}; expected {}", word_bits(w), at + 1, gs, bitres_str(&want)),
            ));
        }
        None
    };
    crate::hidden::counter_wraps(rep, if serial { "Ps2Decoder::add_bit" } else { "Ps2Decoder::add_word" }, &mut step, 800);
}

pub fn run_c06(rep: &mut Report) {
    frame_static_counter_wraps(rep, "C06", true);
    clean_run_then_fault(rep, "C06", whole_word);
    copies_then_every_frame(rep, "C06", whole_word);
    shifted_bursts(rep, "C06", whole_word);
    let long_run = std::thread::spawn(run_2_32_bits);
    let fresh_dbg = format!("{:?}", crate::scan::fresh_ps2());
    let mut out = Out::default();

    // ---------------------------------------------------------------- (a) partial-state graph by Debug rendering
    let mut states: BTreeMap<String, Vec<bool>> = BTreeMap::new();
    let mut queue: VecDeque<Vec<bool>> = VecDeque::new();
    states.insert(fresh_dbg.clone(), vec![]);
    queue.push_back(vec![]);
    let mut transitions = 0u64;
    let mut completions = 0u64;
    while let Some(prefix) = queue.pop_front() {
        for bit in [false, true] {
            let r = guarded(|| {
                let mut d = crate::scan::fresh_ps2();
                for b in &prefix {
                    let _ = d.add_bit(*b);
                }
                let r = d.add_bit(bit);
                (r, format!("{:?}", d))
            });
            transitions += 1;
            rep.evaluations += 1;
            let mut p2 = prefix.clone();
            p2.push(bit);
            let bits_s: String = p2.iter().map(|b| if *b { '1' } else { '0' }).collect();
            match r {
                Err(p) => {
                    rep.panics += 1;
                    rep.violate(
                        format!("C06|panic|nbits={}|{}", p2.len(), panic_sig(&p)),
                        format!("add_bit panicked after bits {}: {}", bits_s, p),
                        replay_bits(&[format!("bits:{}", bits_s)], "no panic", "PANIC"),
                    );
                }
                Ok((r, dbg)) => {
                    if p2.len() < 11 {
                        if r != Ok(None) {
                            rep.violate(
                                format!("C06|early-result|prev=fresh|bit#{}|got={}", p2.len(), bitres_str(&r)),
                                format!("after only {} bits ({}) add_bit returned {}", p2.len(), bits_s, bitres_str(&r)),
                                replay_bits(&[format!("bits:{}", bits_s)], "None", &bitres_str(&r)),
                            );
                        }
                        if !states.contains_key(&dbg) && states.len() < 8192 {
                            states.insert(dbg, p2.clone());
                            queue.push_back(p2);
                        } else if dbg == fresh_dbg || states.get(&dbg).map(|q| q.len() != p2.len()).unwrap_or(false) {
                            // a partial prefix collapsed onto a state of a different length: bits were lost
                            rep.violate(
                                format!("C06|partial-state-collapse|nbits={}|state={}", p2.len(), dbg),
                                format!("after {} bits ({}) the decoder renders as {}, the state of a different number of bits", p2.len(), bits_s, dbg),
                                replay_bits(&[format!("bits:{}", bits_s)], "a distinct partial state", &dbg),
                            );
                        }
                    } else {
                        completions += 1;
                        let mut w = 0u16;
                        for (i, b) in p2.iter().enumerate() {
                            if *b {
                                w |= 1 << i;
                            }
                        }
                        let want: BitRes = whole_word(w).map(Some);
                        if r != want {
                            rep.violate(
                                format!("C06|serial-vs-word|prev=fresh|word=0x{:03X}|want={}|got={}", w, bitres_str(&want), bitres_str(&r)),
                                format!("frame {} shifted into a fresh decoder returned {}; whole-word rule says {}", bits_s, bitres_str(&r), bitres_str(&want)),
                                replay_bits(&[format!("bits:{}", bits_s)], &bitres_str(&want), &bitres_str(&r)),
                            );
                        }
                        if dbg != fresh_dbg {
                            let ops = [format!("bits:{}", bits_s)];
                            if !out.judged.contains_key(&dbg) {
                                out.judged.insert(dbg.clone(), leak_after(&ops));
                            }
                            match out.judged[&dbg].clone() {
                                Some(leak) => rep.violate(
                                    format!("C06|state-not-fresh-after-frame|class={}|state={}", frame_class(w), dbg),
                                    format!("after the complete ({}) frame {} the decoder is {} instead of {}, and it leaks: {}", frame_class(w), bits_s, dbg, fresh_dbg, leak),
                                    replay_bits(&ops, &fresh_dbg, &dbg),
                                ),
                                None => out.structural_only += 1,
                            }
                        }
                    }
                }
            }
        }
    }
    {
        let dd = format!("{:?}", Ps2Decoder::default());
        if dd != fresh_dbg {
            match leak_after_default() {
                Some(leak) => rep.violate(
                    format!("C06|default-not-fresh|state={}", dd),
                    format!("Ps2Decoder::default() is {} instead of {}, and frames shifted into it decode differently: {}", dd, fresh_dbg, leak),
                    J::Null,
                ),
                None => out.structural_only += 1,
            }
        }
    }
    rep.states = Some(states.len() as u64);
    rep.transitions = Some(transitions);
    rep.count("partial_states_found", states.len() as u64);
    rep.count("bit_transitions_from_partial_states", transitions);
    rep.count("frame_completions_from_10_bit_states", completions);
    rep.require("partial states", states.len() as u64, 2047);

    // ---------------------------------------------------------------- (b) all ordered frame pairs
    let threads = n_threads();
    let fd = fresh_dbg.clone();
    let shards = par_map(threads, move |t| {
        let mut out = Out::default();
        let mut w1 = t as u16;
        while w1 < 2048 {
            let row = |out: &mut Out| {
                for w2 in 0..2048u16 {
                    let mut d = crate::scan::fresh_ps2();
                    let none = || Vec::new();
                    feed_and_check(&mut d, w1, "fresh", &none, &fd, false, out);
                    let prev = match frame_class(w1) {
                        "valid" => "after-valid-frame",
                        "bad-start" => "after-bad-start-frame",
                        "bad-stop" => "after-bad-stop-frame",
                        _ => "after-bad-parity-frame",
                    };
                    let po = || vec![format!("bits:{}", word_bits(w1))];
                    feed_and_check(&mut d, w2, prev, &po, &fd, w2 % 64 == (w1 % 64), out);
                    if out.violations.len() > 4000 {
                        return;
                    }
                }
            };
            let mut local = Out::default();
            if let Err(p) = guarded(|| row(&mut local)) {
                local.panics += 1;
                local.violations.push((
                    format!("C06|panic|frame-pairs|{}", panic_sig(&p)),
                    format!("bit-serial decoding panicked in a frame pair starting with {}: {}", word_bits(w1), p),
                    replay_bits(&[format!("bits:{}", word_bits(w1))], "no panic", "PANIC"),
                ));
            }
            out.add_bits += local.add_bits;
            out.frames += local.frames;
            out.panics += local.panics;
            out.violations.extend(local.violations);
            w1 += threads as u16;
        }
        out
    });
    let mut pair_frames = 0;
    for s in shards {
        pair_frames += s.frames;
        merge(&mut out, s);
    }
    rep.count("ordered_frame_pairs", pair_frames / 2);

    // ---------------------------------------------------------------- (b2) longer memories: every frame repeated many times on one
    //      decoder, and triples (two representative frames, then every frame)
    {
        let reps_n = if rep.thorough() { 300 } else { 40 };
        let fd = fresh_dbg.clone();
        let shards = par_map(threads, move |t| {
            let mut out = Out::default();
            let mut w = t as u16;
            while w < 2048 {
                let r = guarded(|| {
                    let mut local = Out::default();
                    let mut d = crate::scan::fresh_ps2();
                    for k in 0..reps_n {
                        let prev = if k == 0 { "fresh".to_string() } else { format!("after-{}-copies-of-the-same-frame", k.min(3)) };
                        let po = || vec![format!("bits:{} (x{})", word_bits(w), k)];
                        if !feed_and_check(&mut d, w, &prev, &po, &fd, false, &mut local) {
                            break;
                        }
                    }
                    local
                });
                match r {
                    Ok(l) => merge(&mut out, l),
                    Err(p) => {
                        out.panics += 1;
                        out.violations.push((format!("C06|panic|repeated-frame|{}", panic_sig(&p)), format!("repeating frame {} panicked: {}", word_bits(w), p), J::Null));
                    }
                }
                w += threads as u16;
            }
            out
        });
        let mut n = 0;
        for s in shards {
            n += s.frames;
            merge(&mut out, s);
        }
        rep.count("frames_in_repeated_frame_runs", n);

        // representative first and second frames: a few of each class
        let mut reps: Vec<u16> = vec![0x000, 0x7FF, 0x001, 0x400, 0x3FE, 0x5FE];
        let n_rep = if rep.thorough() { 58 } else { 10 };
        let mut rng = Rng::fork(rep.seed, 0xC06_7777);
        for i in 0..n_rep {
            let b = rng.byte();
            reps.push(match i % 4 {
                0 => encode_frame(b),
                1 => encode_frame(b) ^ 0x200,
                2 => encode_frame(b) ^ 0x400,
                _ => encode_frame(b) | 1,
            });
        }
        let fd = fresh_dbg.clone();
        let reps2 = reps.clone();
        let shards = par_map(threads, move |t| {
            let mut out = Out::default();
            for (i, w1) in reps2.iter().enumerate() {
                if i % threads != t {
                    continue;
                }
                for w2 in reps2.iter() {
                    let r = guarded(|| {
                        let mut local = Out::default();
                        for w3 in 0..2048u16 {
                            let mut d = crate::scan::fresh_ps2();
                            let none = || Vec::new();
                            feed_and_check(&mut d, *w1, "fresh", &none, &fd, false, &mut local);
                            feed_and_check(&mut d, *w2, "after-one-frame", &none, &fd, false, &mut local);
                            let prev = format!("after-{}-then-{}-frame", frame_class(*w1), frame_class(*w2));
                            let po = || vec![format!("bits:{}", word_bits(*w1)), format!("bits:{}", word_bits(*w2))];
                            feed_and_check(&mut d, w3, &prev, &po, &fd, false, &mut local);
                            if local.violations.len() > 500 {
                                break;
                            }
                        }
                        local
                    });
                    match r {
                        Ok(l) => merge(&mut out, l),
                        Err(p) => {
                            out.panics += 1;
                            out.violations.push((format!("C06|panic|frame-triples|{}", panic_sig(&p)), format!("frame triple panicked: {}", p), J::Null));
                        }
                    }
                }
            }
            out
        });
        let mut n = 0;
        for s in shards {
            n += s.frames;
            merge(&mut out, s);
        }
        rep.count("frame_triples", n / 3);
    }

    // ---------------------------------------------------------------- (b3) very long runs on one decoder, every 11th-bit result verified:
    //      hundreds of thousands of rejected frames in a row (a stuck line), and in the thorough tier more than 2^32 bits
    {
        let run_frames: u64 = if rep.thorough() { 2_000_000 } else { 300_000 };
        let words = [0x000u16, 0x7FF, encode_frame(0x55) ^ 0x200, encode_frame(0xF0), 0x001, encode_frame(0x00)];
        let shards = par_map(words.len().min(threads.max(1)), move |t| {
            let mut out = Out::default();
            let w = words[t % words.len()];
            let want: BitRes = whole_word(w).map(Some);
            let follow = encode_frame(0xA5);
            let wantf: BitRes = whole_word(follow).map(Some);
            let r = guarded(|| {
                let mut d = crate::scan::fresh_ps2();
                for n in 0..run_frames {
                    for i in 0..11 {
                        let r = d.add_bit((w >> i) & 1 == 1);
                        let exp: BitRes = if i < 10 { Ok(None) } else { want };
                        if r != exp {
                            return Some((n, i, bitres_str(&r), bitres_str(&exp), false));
                        }
                    }
                    // every 4096 frames: a different (valid) frame must still decode
                    if n % 4096 == 4095 || n + 1 == run_frames {
                        for i in 0..11 {
                            let r = d.add_bit((follow >> i) & 1 == 1);
                            let exp: BitRes = if i < 10 { Ok(None) } else { wantf };
                            if r != exp {
                                return Some((n, i, bitres_str(&r), bitres_str(&exp), true));
                            }
                        }
                    }
                }
                None
            });
            out.add_bits += run_frames * 11;
            match r {
                Ok(None) => {}
                Ok(Some((n, i, got, exp, on_follower))) => out.violations.push((
                    format!("C06|long-run|frame=0x{:03X}|{}|bit#{}|want={}|got={}", w, if on_follower { "follower" } else { "repeated" }, i + 1, exp, got),
                    format!(
                        "after {} consecutive copies of frame {} on one decoder, bit {} of the {} frame returned {} instead of {}",
                        n,
                        word_bits(w),
                        i + 1,
                        if on_follower { "following valid" } else { "next identical" },
                        got,
                        exp
                    ),
                    J::obj().with("kind", J::s("long-run")).with("word", J::u(w as u64)).with("copies", J::u(n)),
                )),
                Err(p) => {
                    out.panics += 1;
                    out.violations.push((format!("C06|panic|long-run|{}", panic_sig(&p)), format!("long run of frame {} panicked: {}", word_bits(w), p), J::Null));
                }
            }
            out
        });
        for s in shards {
            merge(&mut out, s);
        }
        rep.count("long_run_frames_per_word", run_frames);
    }

    // ---------------------------------------------------------------- (c) clear() from every partial state, then every frame
    let prefixes: Vec<Vec<bool>> = states.values().cloned().collect();
    let fd = fresh_dbg.clone();
    let all_frames = rep.thorough();
    let seed = rep.seed;
    let shards = par_map(threads, move |t| {
        let mut out = Out::default();
        let mut i = t;
        while i < prefixes.len() {
            let p = &prefixes[i];
            let bits_s: String = p.iter().map(|b| if *b { '1' } else { '0' }).collect();
            let mut local = Out::default();
            let r = guarded(|| {
                // quick: 256 seeded frames per partial state + the all-zero/all-one frames; thorough: all 2048
                let mut rng = Rng::fork(seed, i as u64);
                let n = if all_frames { 2048 } else { 258 };
                for k in 0..n {
                    let w = if all_frames {
                        k as u16
                    } else if k == 256 {
                        0
                    } else if k == 257 {
                        0x7FF
                    } else {
                        (rng.below(2048)) as u16
                    };
                    let mut d = crate::scan::fresh_ps2();
                    for b in p {
                        let _ = d.add_bit(*b);
                        local.add_bits += 1;
                    }
                    d.clear();
                    local.clears += 1;
                    let s = format!("{:?}", d);
                    if k == 0 && s != fd {
                        let ops = [format!("bits:{}", bits_s), "clear".to_string()];
                        if !local.judged.contains_key(&s) {
                            local.judged.insert(s.clone(), leak_after(&ops));
                        }
                        match local.judged[&s].clone() {
                            Some(leak) => local.violations.push((
                                format!("C06|state-not-fresh-after-clear|nbits={}|state={}", p.len(), s),
                                format!("clear() after {} bits ({}) leaves {} instead of {}, and it leaks: {}", p.len(), bits_s, s, fd, leak),
                                replay_bits(&ops, &fd, &s),
                            )),
                            None => local.structural_only += 1,
                        }
                    }
                    let prev = format!("after-clear({}bits)", p.len());
                    let po = || vec![format!("bits:{}", bits_s), "clear".to_string()];
                    feed_and_check(&mut d, w, &prev, &po, &fd, k % 16 == 0, &mut local);
                }
            });
            if let Err(pn) = r {
                local.panics += 1;
                local.violations.push((
                    format!("C06|panic|after-clear|{}", panic_sig(&pn)),
                    format!("panic while decoding after clear() from partial state {}: {}", bits_s, pn),
                    replay_bits(&[format!("bits:{}", bits_s), "clear".into()], "no panic", "PANIC"),
                ));
            }
            merge(&mut out, local);
            i += threads;
        }
        out
    });
    let mut clear_frames = 0;
    for s in shards {
        clear_frames += s.frames;
        merge(&mut out, s);
    }
    rep.count("frames_after_clear_from_partial_states", clear_frames);

    // ---------------------------------------------------------------- (d) noisy bit streams with random clear(), lock-step with a shadow register
    let total_bits: u64 = if rep.thorough() { 1_000_000_000 } else { 20_000_000 };
    let per = total_bits / threads as u64;
    let fd = fresh_dbg.clone();
    let shards = par_map(threads, move |t| {
        let mut out = Out::default();
        let mut rng = Rng::fork(seed, 0xC06_0000 + t as u64);
        let mut done = 0u64;
        while done < per {
            // one history of ~20k bits on one Ps2Decoder
            // the first history of every worker is a long one
            let hist_len = (if done == 0 { 600_000u64 } else { 20_000u64 }).min(per - done);
            let mut recent: VecDeque<String> = VecDeque::new();
            let r = guarded(|| {
                let mut d = crate::scan::fresh_ps2();
                let mut shadow: Vec<bool> = Vec::with_capacity(11);
                let mut viol = Vec::new();
                let mut n = 0u64;
                let mut clears = 0u64;
                let mut frames = 0u64;
                let mut structural = 0u64;
                // bit source: frames of random bytes with line noise
                let mut pending: VecDeque<bool> = VecDeque::new();
                while n < hist_len {
                    if pending.is_empty() {
                        let w = match rng.below(10) {
                            0 => rng.below(2048) as u16,                      // arbitrary garbage word
                            1 => encode_frame(rng.byte()) ^ (1 << rng.below(11)), // single flip
                            2 => encode_frame(rng.byte()) ^ (1 << rng.below(11)) ^ (1 << rng.below(11)),
                            _ => encode_frame(rng.byte()),
                        };
                        let mut bits: Vec<bool> = (0..11).map(|i| (w >> i) & 1 == 1).collect();
                        match rng.below(40) {
                            0 => {
                                bits.remove(rng.below(11) as usize); // dropped bit → desynchronisation
                            }
                            1 => bits.insert(rng.below(11) as usize, rng.bit()), // inserted bit
                            2 => {
                                let v = rng.bit(); // stuck-at run
                                for _ in 0..rng.below(30) {
                                    bits.push(v);
                                }
                            }
                            _ => {}
                        }
                        pending.extend(bits);
                    }
                    if rng.below(200) == 0 {
                        d.clear();
                        shadow.clear();
                        clears += 1;
                        if recent.len() > 40 {
                            recent.pop_front();
                        }
                        recent.push_back("clear".into());
                        continue;
                    }
                    let bit = pending.pop_front().unwrap();
                    shadow.push(bit);
                    let r = d.add_bit(bit);
                    n += 1;
                    if recent.len() > 40 {
                        recent.pop_front();
                    }
                    recent.push_back(format!("bits:{}", if bit { 1 } else { 0 }));
                    let (want, wantk): (BitRes, Res) = if shadow.len() == 11 {
                        let mut w = 0u16;
                        for (i, b) in shadow.iter().enumerate() {
                            if *b {
                                w |= 1 << i;
                            }
                        }
                        shadow.clear();
                        frames += 1;
                        match whole_word(w) {
                            Ok(b) => (Ok(Some(b)), Ok(None)),
                            Err(e) => (Err(e), Err(e)),
                        }
                    } else {
                        (Ok(None), Ok(None))
                    };
                    if r != want {
                        viol.push((
                            format!("C06|noisy-stream|shadow-bits={}|want={}|got={}", if shadow.is_empty() { 11 } else { shadow.len() }, bitres_str(&want), bitres_str(&r)),
                            format!("noisy bit stream: shadow shift register says {}, add_bit returned {}", bitres_str(&want), bitres_str(&r)),
                            recent.iter().cloned().collect::<Vec<_>>(),
                        ));
                        break;
                    }
                    let _ = &wantk; // (the Keyboard-level path is C18's subject and is not driven here)
                    if shadow.is_empty() && frames % 97 == 0 {
                        let s = format!("{:?}", d);
                        if s != fd {
                            // only counted here: the lock-step shadow register is the behavioural oracle of this workload
                            structural += 1;
                        }
                    }
                }
                (viol, n, clears, frames, structural)
            });
            match r {
                Ok((viol, n, clears, frames, structural)) => {
                    out.structural_only += structural;
                    out.add_bits += n;
                    out.clears += clears;
                    out.frames += frames;
                    for (s, w, ops) in viol {
                        out.violations.push((s, w, replay_bits(&ops, "see signature", "see signature").with("note", J::s("last ≤40 ops of the history; the full history is regenerated from the seed"))));
                    }
                }
                Err(p) => {
                    out.panics += 1;
                    out.violations.push((format!("C06|panic|noisy-stream|{}", panic_sig(&p)), format!("noisy bit stream panicked: {}", p), J::Null));
                }
            }
            done += hist_len;
        }
        out
    });
    let (mut noisy_bits, mut noisy_clears, mut noisy_frames) = (0, 0, 0);
    for s in shards {
        noisy_bits += s.add_bits;
        noisy_clears += s.clears;
        noisy_frames += s.frames;
        merge(&mut out, s);
    }
    rep.count("noisy_stream_bits", noisy_bits);
    rep.count("noisy_stream_clears", noisy_clears);
    rep.count("noisy_stream_frame_boundaries", noisy_frames);

    if let Ok((bits, v)) = long_run.join() {
        rep.evaluations += bits;
        rep.count("bits_through_one_decoder_in_the_2^32_run", bits);
        if let Some((sig, what)) = v {
            rep.violate(sig, what, J::obj().with("kind", J::s("long-run")));
        }
    }
    rep.evaluations += out.add_bits;
    rep.panics += out.panics;
    rep.count("add_bit_calls", out.add_bits);
    rep.count("frame_boundaries_where_the_rendering_differed_from_fresh_without_any_behavioural_leak", out.structural_only);
    rep.count("clear_calls", out.clears);
    for (s, w, r) in out.violations {
        rep.violate(s, w, r);
    }
    rep.distinct_nontrivial = transitions;
    rep.exhaustive = Some(true);
    rep.rule = "partial-state graph of the real Ps2Decoder extracted by BFS on its Debug rendering (every partial state × both bit values); all 2048² ordered frame pairs shifted in bit by bit on one decoder; \
                clear() from every partial state followed by seeded (quick) / all 2048 (thorough) frames; seeded noisy bit streams with random clear() in lock-step with a shadow shift register; \
                each 11th-bit result compared with the crate's own whole-word decoding of the same 11 bits (whether that follows the frame rule is C05's subject); distinct_nontrivial = distinct (partial state, bit) transitions driven"
        .into();
    rep.sample_str(format!("fresh decoder renders as {}", fresh_dbg));
    let mut it = states.iter().skip(5);
    if let Some((s, p)) = it.next() {
        rep.sample_str(format!("partial state {} reached by bits {:?}", s, p.iter().map(|b| *b as u8).collect::<Vec<_>>()));
    }
    for (w1, w2) in [(encode_frame(0x00), encode_frame(0x01)), (0x7FFu16, encode_frame(0x00)), (encode_frame(0x1C) ^ 0x200, encode_frame(0xF0))] {
        let mut d = crate::scan::fresh_ps2();
        let mut outs = Vec::new();
        for w in [w1, w2] {
            for i in 0..11 {
                outs.push(bitres_str(&d.add_bit((w >> i) & 1 == 1)));
            }
        }
        let nones = outs.iter().filter(|o| *o == "None").count();
        rep.sample_str(format!(
            "observed pair on one decoder: frame {} ({}) then {} ({}) → 11th-bit results {} and {}, {} other bits 'None'",
            word_bits(w1),
            frame_class(w1),
            word_bits(w2),
            frame_class(w2),
            outs[10],
            outs[21],
            nones
        ));
    }
    rep.assumptions.push("Ps2Decoder's derived Debug shows its complete state (register, num_bits); the frame-pair and noisy-stream sweeps do not rely on it".into());
}

fn merge(a: &mut Out, b: Out) {
    a.structural_only += b.structural_only;
    a.add_bits += b.add_bits;
    a.frames += b.frames;
    a.clears += b.clears;
    a.panics += b.panics;
    a.violations.extend(b.violations);
}

#[allow(dead_code)]
fn unused(_: &ScancodeSet1) {}
