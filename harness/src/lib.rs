//! pckb-verif: runtime monitors for the pc-keyboard properties C01–C20 (see /verif/DESIGN.md).
pub mod json;
pub mod keys;
#[macro_use]
pub mod layouts;
pub mod model;
pub mod refs;
pub mod report;
pub mod rng;
pub mod scan;

pub mod mon_scancode;
pub mod mon_resync;
pub mod mon_pairing;
pub mod mon_xlate;
pub mod mon_frame;
pub mod cube;
pub mod mon_layout;
pub mod mon_events;
pub mod mon_compose;
pub mod mon_nopanic;
pub mod replay;
pub mod mon_through;
pub mod novelty;
pub mod hidden;
pub mod forks;
