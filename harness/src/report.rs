//! Result collection: violations keyed by stable signature, measured coverage, samples.

use crate::json::J;
use std::collections::BTreeMap;
use std::time::Instant;

pub const MAX_DETAILED: usize = 400;

pub struct Violation {
    pub sig: String,
    pub what: String,
    pub replay: J,
    pub count: u64,
}

pub struct Report {
    pub property: String,
    pub tier: String,
    pub seed: u64,
    pub start: Instant,
    pub violations: BTreeMap<String, Violation>,
    pub order: Vec<String>,
    pub violation_events: u64,
    pub evaluations: u64,
    pub counters: BTreeMap<String, u64>,
    pub extra: Vec<(String, J)>,
    pub samples: Vec<J>,
    pub rule: String,
    pub distinct_nontrivial: u64,
    pub exhaustive: Option<bool>,
    pub states: Option<u64>,
    pub transitions: Option<u64>,
    pub inconclusive: Vec<String>,
    pub panics: u64,
    pub assumptions: Vec<String>,
    pub notes: Vec<String>,
}

/// second (plain-release) pass of a check: the multi-minute long runs are left to the first pass
pub fn light() -> bool {
    std::env::var("VERIF_LIGHT").is_ok()
}

impl Report {
    pub fn new(property: &str, tier: &str, seed: u64) -> Report {
        Report {
            property: property.to_string(),
            tier: tier.to_string(),
            seed,
            start: Instant::now(),
            violations: BTreeMap::new(),
            order: Vec::new(),
            violation_events: 0,
            evaluations: 0,
            counters: BTreeMap::new(),
            extra: Vec::new(),
            samples: Vec::new(),
            rule: String::new(),
            distinct_nontrivial: 0,
            exhaustive: None,
            states: None,
            transitions: None,
            inconclusive: Vec::new(),
            panics: 0,
            assumptions: Vec::new(),
            notes: Vec::new(),
        }
    }

    pub fn thorough(&self) -> bool {
        self.tier == "thorough"
    }

    /// Take over what a repetition of the monitor from another start state (a further constructor) observed.
    pub fn absorb(&mut self, sub: Report, ctor: &str) {
        self.evaluations += sub.evaluations;
        self.panics += sub.panics;
        self.count(&format!("evaluations_repeated_from_{}", ctor), sub.evaluations);
        self.notes.push(format!("the tree offers the further constructor {}: the whole monitor was repeated with decoders built by it ({} evaluations, {} distinct violations)", ctor, sub.evaluations, sub.order.len()));
        for m in sub.inconclusive {
            self.inconclusive.push(format!("[{}] {}", ctor, m));
        }
        for k in sub.order {
            // what the run from `new()` reports as well is not a matter of this constructor
            if self.violations.contains_key(&k) {
                continue;
            }
            if let Some(v) = sub.violations.get(&k) {
                let rp = match &v.replay {
                    J::Null => J::Null,
                    other => other.clone().with("ctor", J::s(ctor)),
                };
                for _ in 0..v.count.min(1) {
                    self.violate(format!("{}|ctor={}", v.sig, ctor), format!("[decoder built with {}] {}", ctor, v.what), rp.clone());
                }
            }
        }
    }

    /// Record a violation. `sig` must be history-independent where possible.
    pub fn violate(&mut self, sig: String, what: String, replay: J) {
        self.violation_events += 1;
        if let Some(v) = self.violations.get_mut(&sig) {
            v.count += 1;
            return;
        }
        if self.violations.len() >= MAX_DETAILED {
            // still counted in violation_events; keep one overflow bucket
            let k = format!("{}|overflow", self.property);
            let e = self.violations.entry(k.clone()).or_insert_with(|| Violation {
                sig: k.clone(),
                what: "more distinct violation signatures than the detail cap".into(),
                replay: J::Null,
                count: 0,
            });
            e.count += 1;
            if !self.order.contains(&k) {
                self.order.push(k);
            }
            return;
        }
        self.order.push(sig.clone());
        self.violations.insert(
            sig.clone(),
            Violation {
                sig,
                what,
                replay,
                count: 1,
            },
        );
    }

    pub fn count(&mut self, k: &str, n: u64) {
        *self.counters.entry(k.to_string()).or_insert(0) += n;
    }
    pub fn set_extra(&mut self, k: &str, v: J) {
        if let Some(slot) = self.extra.iter_mut().find(|(kk, _)| kk == k) {
            slot.1 = v;
        } else {
            self.extra.push((k.to_string(), v));
        }
    }
    pub fn sample(&mut self, s: J) {
        if self.samples.len() < 24 {
            self.samples.push(s);
        }
    }
    pub fn sample_str<S: Into<String>>(&mut self, s: S) {
        self.sample(J::Str(s.into()));
    }
    pub fn inconclusive<S: Into<String>>(&mut self, why: S) {
        self.inconclusive.push(why.into());
    }
    /// A monitor that saw too little must fail itself (never silently pass).
    pub fn require(&mut self, what: &str, seen: u64, min: u64) {
        if seen < min {
            self.inconclusive(format!("observed too little: {} = {} < required {}", what, seen, min));
        }
    }

    pub fn merge_counts(&mut self, other: &BTreeMap<String, u64>) {
        for (k, v) in other {
            *self.counters.entry(k.clone()).or_insert(0) += *v;
        }
    }

    pub fn to_json(&self) -> J {
        let mut o = J::obj();
        o.set("property", J::s(self.property.clone()));
        o.set("tier", J::s(self.tier.clone()));
        o.set("seed", J::u(self.seed));
        o.set("wall_s", J::Num(self.start.elapsed().as_secs_f64()));
        let mut vs = Vec::new();
        for sig in &self.order {
            let v = &self.violations[sig];
            vs.push(
                J::obj()
                    .with("sig", J::s(v.sig.clone()))
                    .with("what", J::s(v.what.clone()))
                    .with("count", J::u(v.count))
                    .with("replay", v.replay.clone()),
            );
        }
        o.set("violations", J::Arr(vs));
        o.set("violation_events", J::u(self.violation_events));
        o.set("inconclusive", J::strs(self.inconclusive.iter().cloned()));
        let mut cov = J::obj();
        cov.set("evaluations", J::u(self.evaluations));
        cov.set("distinct_nontrivial", J::u(self.distinct_nontrivial));
        cov.set("rule", J::s(self.rule.clone()));
        if let Some(e) = self.exhaustive {
            cov.set("exhaustive", J::Bool(e));
        }
        if let Some(s) = self.states {
            cov.set("states", J::u(s));
        }
        if let Some(t) = self.transitions {
            cov.set("transitions", J::u(t));
        }
        cov.set("panics_caught", J::u(self.panics));
        cov.set("counters", J::from_map(&self.counters));
        for (k, v) in &self.extra {
            cov.set(k.clone(), v.clone());
        }
        cov.set("samples", J::Arr(self.samples.clone()));
        if !self.notes.is_empty() {
            cov.set("notes", J::strs(self.notes.iter().cloned()));
        }
        o.set("coverage", cov);
        o.set("assumptions", J::strs(self.assumptions.iter().cloned()));
        o
    }
}

// ------------------------------------------------------------------ panic capture

use std::cell::RefCell;
use std::panic::{catch_unwind, AssertUnwindSafe};

thread_local! {
    static LAST_PANIC: RefCell<String> = RefCell::new(String::new());
}

/// Install a quiet panic hook that remembers the message and location per thread.
pub fn install_panic_hook() {
    std::panic::set_hook(Box::new(|info| {
        let msg = if let Some(s) = info.payload().downcast_ref::<&str>() {
            s.to_string()
        } else if let Some(s) = info.payload().downcast_ref::<String>() {
            s.clone()
        } else {
            "<non-string panic>".to_string()
        };
        let loc = info
            .location()
            .map(|l| format!("{}:{}", l.file(), l.line()))
            .unwrap_or_default();
        // a panic that cannot unwind (e.g. an `unsafe` precondition check) aborts the process: say why before it does
        if msg.contains("unsafe precondition") || msg.contains("cannot unwind") || msg.contains("misaligned pointer") || msg.contains("null pointer") {
            eprintln!("NON-UNWINDING PANIC: {} @ {}", msg.replace('\n', " "), loc);
        }
        LAST_PANIC.with(|p| *p.borrow_mut() = format!("{} @ {}", msg, loc));
    }));
}

/// Run `f`, converting a panic into `Err(message)`.
pub fn guarded<R>(f: impl FnOnce() -> R) -> Result<R, String> {
    match catch_unwind(AssertUnwindSafe(f)) {
        Ok(r) => Ok(r),
        Err(_) => Err(LAST_PANIC.with(|p| p.borrow().clone())),
    }
}

/// A short, stable signature part for a panic message (strip line numbers → file only).
pub fn panic_sig(msg: &str) -> String {
    // "attempt to add with overflow @ /repo/src/lib.rs:594" -> "attempt to add with overflow@lib.rs"
    let (m, loc) = match msg.find(" @ ") {
        Some(i) => (&msg[..i], &msg[i + 3..]),
        None => (msg, ""),
    };
    let loc = loc.split(" @ ").next().unwrap_or("");
    let file = loc.rsplit('/').next().unwrap_or("");
    let file = file.split(':').next().unwrap_or("");
    let m: String = m.chars().take(60).collect();
    format!("{}@{}", m, file)
}
