//! C07 — scancode decoders resynchronise after every event or error (reference-table-free).
//!
//! (1) after every non-`None` result the decoder `==` `new()` (hook) and behaves like a fresh one;
//! (2) at most 2 (Set 2) / 1 (Set 1) consecutive "no event yet" results;
//! (3) every result equals what a *fresh* decoder returns for the bytes since the last
//!     non-`None` result – i.e. nothing received before that point has any influence.

use crate::json::J;
use crate::keys::*;
use crate::report::*;
use crate::rng::Rng;
use crate::scan::*;
use std::collections::{BTreeMap, BTreeSet, HashMap, VecDeque};

/// Results of a fresh decoder on short segments (the oracle of (3)), memoised.
pub struct FreshTable<D: Dec> {
    t1: Vec<u16>,
    t2: Vec<u16>,
    deep: HashMap<Vec<u8>, u16>,
    _d: std::marker::PhantomData<D>,
}
impl<D: Dec> FreshTable<D> {
    pub fn new() -> FreshTable<D> {
        let mut t1 = vec![0u16; 256];
        let mut t2 = vec![0u16; 65536];
        for a in 0..256usize {
            let mut d = D::fresh();
            t1[a] = guarded(|| enc_res(&d.advance_state(a as u8))).unwrap_or(ENC_RES_PANIC);
            for b in 0..256usize {
                let mut dd = d.clone();
                t2[a * 256 + b] = guarded(|| enc_res(&dd.advance_state(b as u8))).unwrap_or(ENC_RES_PANIC);
            }
        }
        FreshTable {
            t1,
            t2,
            deep: HashMap::new(),
            _d: std::marker::PhantomData,
        }
    }
    /// result a fresh decoder gives for the last byte of `seg`
    pub fn expect(&mut self, seg: &[u8]) -> u16 {
        match seg.len() {
            1 => self.t1[seg[0] as usize],
            2 => self.t2[seg[0] as usize * 256 + seg[1] as usize],
            _ => {
                if let Some(v) = self.deep.get(seg) {
                    return *v;
                }
                let v = guarded(|| {
                    let mut d = D::fresh();
                    let mut last = 0;
                    for b in seg {
                        last = enc_res(&d.advance_state(*b));
                    }
                    last
                })
                .unwrap_or(ENC_RES_PANIC);
                self.deep.insert(seg.to_vec(), v);
                v
            }
        }
    }
}

/// Behavioural test of "back in its initial condition": does `d` answer every 1- and 2-byte continuation, and every
/// 3-byte continuation that starts with two prefix bytes, exactly like a fresh decoder?  (The hook's `==` is only a
/// fast path: a tree may carry extra state that has no influence on later bytes, which the property allows.)
fn first_behavioural_difference<D: Dec>(d: &D) -> Option<(Vec<u8>, u16, u16)> {
    let pre = [0xE0u8, 0xE1, 0xF0];
    for a in 0..=255u8 {
        let (mut x, mut y) = (d.clone(), D::fresh());
        let ra = guarded(|| enc_res(&x.advance_state(a))).unwrap_or(ENC_RES_PANIC);
        let rb = guarded(|| enc_res(&y.advance_state(a))).unwrap_or(ENC_RES_PANIC);
        if ra != rb {
            return Some((vec![a], rb, ra));
        }
        for b in 0..=255u8 {
            let (mut x2, mut y2) = (x.clone(), y.clone());
            let ra = guarded(|| enc_res(&x2.advance_state(b))).unwrap_or(ENC_RES_PANIC);
            let rb = guarded(|| enc_res(&y2.advance_state(b))).unwrap_or(ENC_RES_PANIC);
            if ra != rb {
                return Some((vec![a, b], rb, ra));
            }
            if pre.contains(&a) && pre.contains(&b) {
                for c in 0..=255u8 {
                    let (mut x3, mut y3) = (x2.clone(), y2.clone());
                    let ra = guarded(|| enc_res(&x3.advance_state(c))).unwrap_or(ENC_RES_PANIC);
                    let rb = guarded(|| enc_res(&y3.advance_state(c))).unwrap_or(ENC_RES_PANIC);
                    if ra != rb {
                        return Some((vec![a, b, c], rb, ra));
                    }
                }
            }
        }
    }
    None
}

#[derive(Default)]
struct Out {
    structural_only: u64,
    judged: std::collections::HashMap<String, Option<(Vec<u8>, u16, u16)>>,
    bytes: u64,
    streams: u64,
    streams4: u64,
    finals: u64,
    errs_followed: u64,
    none_runs: [u64; 4],
    violations: Vec<(String, String, J)>,
    panics: u64,
}

fn replay(set: u8, hist: &[u8], expected: &str, got: &str) -> J {
    J::obj()
        .with("kind", J::s("bytes"))
        .with("set", J::u(set as u64))
        .with("via", J::s("advance_state"))
        .with("bytes", J::Arr(hist.iter().map(|b| J::u(*b as u64)).collect()))
        .with("bytes_hex", J::s(hex_bytes(hist)))
        .with("expected_last", J::s(expected))
        .with("observed_last", J::s(got))
}

/// Walks one stream on a continuing real decoder, checking (1)–(3). `start` allows sharing a prefix.
struct Walker<D: Dec> {
    d: D,
    seg: Vec<u8>,
    hist: Vec<u8>,
    prev_was_err: bool,
}

impl<D: Dec> Walker<D> {
    fn new() -> Self {
        Walker {
            d: D::fresh(),
            seg: Vec::with_capacity(4),
            hist: Vec::new(),
            prev_was_err: false,
        }
    }
    fn fork(&self) -> Self {
        Walker {
            d: self.d.clone(),
            seg: self.seg.clone(),
            hist: self.hist.clone(),
            prev_was_err: self.prev_was_err,
        }
    }
    /// returns false if the walk should stop (violation that desynchronises the oracle)
    fn step(&mut self, b: u8, ft: &mut FreshTable<D>, fresh: &D, uni: &[pc_keyboard::KeyCode], keep_hist: bool, out: &mut Out) -> bool {
        let set = D::SET;
        self.seg.push(b);
        if keep_hist {
            self.hist.push(b);
        }
        out.bytes += 1;
        if self.prev_was_err {
            out.errs_followed += 1;
        }
        let got = match guarded(|| enc_res(&self.d.advance_state(b))) {
            Ok(g) => g,
            Err(p) => {
                out.panics += 1;
                out.violations.push((
                    format!("C07|{}|panic|seg=[{}]|{}", set_name(set), hex_bytes(&self.seg), panic_sig(&p)),
                    format!("{}: panic after bytes [{}]: {}", set_name(set), hex_bytes(&self.hist), p),
                    replay(set, &self.hist, "no panic", "PANIC"),
                ));
                return false;
            }
        };
        let want = ft.expect(&self.seg);
        if got != want {
            out.violations.push((
                format!(
                    "C07|{}|history-dependence|seg=[{}]|fresh={}|got={}",
                    set_name(set),
                    hex_bytes(&self.seg),
                    enc_res_str(want, uni),
                    enc_res_str(got, uni)
                ),
                format!(
                    "{}: after history [{}] the bytes since the last event/error [{}] gave {}, but a fresh decoder gives {} for them – something before that point leaked",
                    set_name(set),
                    hex_bytes(&self.hist),
                    hex_bytes(&self.seg),
                    enc_res_str(got, uni),
                    enc_res_str(want, uni)
                ),
                replay(set, &self.hist, &enc_res_str(want, uni), &enc_res_str(got, uni)),
            ));
            return false;
        }
        if got == 0 {
            self.prev_was_err = false;
            if self.seg.len() > D::MAX_NONE_RUN {
                out.violations.push((
                    format!("C07|{}|none-run|seg=[{}]", set_name(set), hex_bytes(&self.seg)),
                    format!(
                        "{}: {} consecutive bytes [{}] all returned 'no event yet' (at most {} allowed)",
                        set_name(set),
                        self.seg.len(),
                        hex_bytes(&self.seg),
                        D::MAX_NONE_RUN
                    ),
                    replay(set, &self.hist, "an event or an error", "None"),
                ));
                return false;
            }
            true
        } else {
            out.finals += 1;
            out.none_runs[(self.seg.len() - 1).min(3)] += 1;
            self.prev_was_err = got < 16;
            if self.d != *fresh {
                let key = format!("{:?}", self.d);
                if !out.judged.contains_key(&key) && out.judged.len() < 300 {
                    let v = first_behavioural_difference(&self.d);
                    out.judged.insert(key.clone(), v);
                }
                if let Some((cont, want, gotc)) = out.judged.get(&key).cloned().flatten() {
                    out.violations.push((
                        format!(
                            "C07|{}|not-initial-after|seg=[{}]|result={}|state={:?}",
                            set_name(set),
                            hex_bytes(&self.seg),
                            enc_res_str(got, uni),
                            self.d
                        ),
                        format!(
                            "{}: after [{}] returned {} the decoder is {:?}, not its initial condition {:?}: the following bytes [{}] give {} where a fresh decoder gives {}",
                            set_name(set),
                            hex_bytes(&self.seg),
                            enc_res_str(got, uni),
                            self.d,
                            fresh,
                            hex_bytes(&cont),
                            enc_res_str(gotc, uni),
                            enc_res_str(want, uni)
                        ),
                        replay(set, &self.hist, "decoder == new()", &format!("{:?}", self.d)),
                    ));
                    self.seg.clear();
                    return false;
                }
                out.structural_only += 1;
            }
            self.seg.clear();
            true
        }
    }
}

pub fn run<D: Dec>(rep: &mut Report) {
    // ---- after a very long run of one thing (a held key, a rejected byte, an ill-placed prefix pair) on a decoder with a history:
    //      every 2^k + d repetitions the decoder – which has just reported an event or an error – must be in its initial condition
    {
        let kmax: u32 = if light() { 17 } else if rep.thorough() { 26 } else { 24 };
        let points = soak_checkpoints::<D>(kmax);
        let mut n = 0u64;
        for sp in points.iter() {
            n += 1;
            if let Some((cont, want, gotc)) = first_behavioural_difference(&sp.d) {
                let uni = universe();
                rep.violate(
                    format!("C07|{}|after-soak|unit=[{}]|cont=[{}]|want={}|got={}", set_name(D::SET), hex_bytes(&sp.unit), hex_bytes(&cont), enc_res_str(want, &uni), enc_res_str(gotc, &uni)),
                    format!(
                        "{}: {} (after [{}]): after {} repetitions of [{}] the decoder is not in its initial condition: the following bytes [{}] give {} where a fresh decoder gives {}",
                        set_name(D::SET), sp.what, hex_bytes(&sp.pre), sp.n, hex_bytes(&sp.unit), hex_bytes(&cont), enc_res_str(gotc, &uni), enc_res_str(want, &uni)
                    ),
                    J::obj().with("kind", J::s("checkpointed-soak")).with("set", J::u(D::SET as u64)).with("pre_hex", J::s(hex_bytes(&sp.pre))).with("unit_hex", J::s(hex_bytes(&sp.unit))).with("repetitions", J::u(sp.n)).with("continuation_hex", J::s(hex_bytes(&cont))),
                );
                break;
            }
        }
        rep.evaluations += n * 66_000;
        rep.count(&format!("{}_decoders_probed_at_soak_checkpoints", set_name(D::SET)), n);
    }
    let set = D::SET;
    let uni = universe();
    let fresh = D::fresh();
    let mut out = Out::default();
    let mut ft: FreshTable<D> = FreshTable::new();

    // ---------------------------------------------------------------- (a) state graph: every state × 256 bytes,
    //      and after every non-None transition a twin/fresh differential on every next byte
    let mut states: BTreeMap<String, (D, Vec<u8>, usize)> = BTreeMap::new(); // name -> (state, path, none-run so far)
    let mut queue: VecDeque<String> = VecDeque::new();
    states.insert(format!("{:?}", fresh), (fresh.clone(), vec![], 0));
    queue.push_back(format!("{:?}", fresh));
    // Default::default() must be the initial condition too
    if let (false, Ok(dd)) = (ctor_overridden(), guarded(D::default)) {
        if dd != fresh {
            if let Some((cont, want, gotc)) = first_behavioural_difference(&dd) {
                rep.violate(
                    format!("C07|{}|default-not-initial|state={:?}", set_name(set), dd),
                    format!(
                        "{}: a decoder built with Default::default() is {:?}; bytes [{}] give {} where new() gives {}",
                        set_name(set),
                        dd,
                        hex_bytes(&cont),
                        enc_res_str(gotc, &uni),
                        enc_res_str(want, &uni)
                    ),
                    replay(set, &cont, &enc_res_str(want, &uni), &enc_res_str(gotc, &uni)),
                );
            }
        }
    }
    let mut transitions = 0u64;
    let mut err_then_cont: BTreeSet<String> = BTreeSet::new();
    let mut twin_checks = 0u64;
    let mut structural_only = 0u64;
    let mut behavioural_probes = 0u32; // bounded: a tree with a counter in its state makes every state differ from new()
    let mut nontrivial: BTreeSet<(String, u8)> = BTreeSet::new();
    while let Some(name) = queue.pop_front() {
        let (d, path, run) = states[&name].clone();
        for b in 0..=255u8 {
            let mut dd = d.clone();
            let mut hist = path.clone();
            hist.push(b);
            transitions += 1;
            let r = match guarded(|| dd.advance_state(b)) {
                Ok(r) => r,
                Err(p) => {
                    rep.panics += 1;
                    rep.violate(
                        format!("C07|{}|panic|state={}|byte=0x{:02X}|{}", set_name(set), name, b, panic_sig(&p)),
                        format!("{}: panic in state {} on byte 0x{:02X}: {}", set_name(set), name, b, p),
                        replay(set, &hist, "no panic", "PANIC"),
                    );
                    continue;
                }
            };
            let e = enc_res(&r);
            if e == 0 {
                if run + 1 > D::MAX_NONE_RUN {
                    rep.violate(
                        format!("C07|{}|none-run|seg=[{}]", set_name(set), hex_bytes(&hist)),
                        format!("{}: bytes [{}] all returned 'no event yet' (more than {} in a row)", set_name(set), hex_bytes(&hist), D::MAX_NONE_RUN),
                        replay(set, &hist, "an event or an error", "None"),
                    );
                    continue;
                }
                let nn = format!("{:?}", dd);
                if !states.contains_key(&nn) && states.len() < 4096 {
                    states.insert(nn.clone(), (dd, hist, run + 1));
                    queue.push_back(nn);
                }
                continue;
            }
            nontrivial.insert((name.clone(), b));
            // non-None: must be back in the initial condition …
            if dd != fresh && behavioural_probes < 3000 {
                behavioural_probes += 1;
                match first_behavioural_difference(&dd) {
                    Some((cont, want, gotc)) => rep.violate(
                        format!("C07|{}|not-initial-after|seg=[{}]|result={}|state={:?}", set_name(set), hex_bytes(&hist), enc_res_str(e, &uni), dd),
                        format!(
                            "{}: after [{}] returned {} the decoder is {:?}, not its initial condition: the following bytes [{}] give {} where a fresh decoder gives {}",
                            set_name(set),
                            hex_bytes(&hist),
                            enc_res_str(e, &uni),
                            dd,
                            hex_bytes(&cont),
                            enc_res_str(gotc, &uni),
                            enc_res_str(want, &uni)
                        ),
                        replay(set, &hist, "decoder == new()", &format!("{:?}", dd)),
                    ),
                    None => structural_only += 1,
                }
                let nn = format!("{:?}", dd);
                if !states.contains_key(&nn) && states.len() < 4096 {
                    states.insert(nn.clone(), (dd.clone(), hist.clone(), 0));
                    queue.push_back(nn);
                }
            }
            // … and behave like a fresh decoder on whatever comes next (twin vs fresh, every next byte,
            // and every second byte when the first one was a prefix)
            for n1 in 0..=255u8 {
                let mut twin = dd.clone();
                let mut fr = D::fresh();
                let a = guarded(|| enc_res(&twin.advance_state(n1))).unwrap_or(ENC_RES_PANIC);
                let c = guarded(|| enc_res(&fr.advance_state(n1))).unwrap_or(ENC_RES_PANIC);
                twin_checks += 1;
                if e < 16 {
                    err_then_cont.insert(name.clone());
                }
                if a != c {
                    let mut h2 = hist.clone();
                    h2.push(n1);
                    rep.violate(
                        format!("C07|{}|history-dependence|seg=[{:02X}]|fresh={}|got={}", set_name(set), n1, enc_res_str(c, &uni), enc_res_str(a, &uni)),
                        format!("{}: after [{}] → {}, next byte 0x{:02X} gave {} but a fresh decoder gives {}", set_name(set), hex_bytes(&hist), enc_res_str(e, &uni), n1, enc_res_str(a, &uni), enc_res_str(c, &uni)),
                        replay(set, &h2, &enc_res_str(c, &uni), &enc_res_str(a, &uni)),
                    );
                    continue;
                }
                if a == 0 && (b % 16 == (n1 % 16)) {
                    // sampled second continuation byte behind a prefix
                    for n2 in 0..=255u8 {
                        let mut t2 = twin.clone();
                        let mut f2 = fr.clone();
                        let a2 = guarded(|| enc_res(&t2.advance_state(n2))).unwrap_or(ENC_RES_PANIC);
                        let c2 = guarded(|| enc_res(&f2.advance_state(n2))).unwrap_or(ENC_RES_PANIC);
                        twin_checks += 1;
                        if a2 != c2 {
                            let mut h2 = hist.clone();
                            h2.push(n1);
                            h2.push(n2);
                            rep.violate(
                                format!("C07|{}|history-dependence|seg=[{:02X} {:02X}]|fresh={}|got={}", set_name(set), n1, n2, enc_res_str(c2, &uni), enc_res_str(a2, &uni)),
                                format!("{}: after [{}], bytes {:02X} {:02X} gave {} but a fresh decoder gives {}", set_name(set), hex_bytes(&hist), n1, n2, enc_res_str(a2, &uni), enc_res_str(c2, &uni)),
                                replay(set, &h2, &enc_res_str(c2, &uni), &enc_res_str(a2, &uni)),
                            );
                        }
                    }
                }
            }
        }
    }
    rep.states = Some(states.len() as u64);
    rep.transitions = Some(transitions);
    rep.evaluations += transitions + twin_checks;
    rep.count(&format!("{}_graph_states", set_name(set)), states.len() as u64);
    rep.count(&format!("{}_graph_transitions", set_name(set)), transitions);
    rep.count(&format!("{}_twin_vs_fresh_continuations", set_name(set)), twin_checks);
    rep.count(&format!("{}_states_differing_from_new()_only_structurally(no_behavioural_difference_found)", set_name(set)), structural_only);
    rep.count(&format!("{}_states_with_error_then_continuation", set_name(set)), err_then_cont.len() as u64);
    rep.require("states in which an error was followed by continuation bytes", err_then_cont.len() as u64, states.len().min(if set == 2 { 6 } else { 3 }) as u64);
    rep.exhaustive = Some(states.len() < 4096);

    // ---------------------------------------------------------------- (b) all two- and three-byte streams from fresh
    let threads = n_threads();
    let deep = rep.thorough();
    let uni2 = uni.clone();
    let shards = par_map(threads, move |t| {
        let mut out = Out::default();
        let mut ft: FreshTable<D> = FreshTable::new();
        let fresh = D::fresh();
        let mut b0 = t;
        while b0 < 256 {
            let mut w0: Walker<D> = Walker::new();
            let ok0 = w0.step(b0 as u8, &mut ft, &fresh, &uni2, true, &mut out);
            if ok0 {
                for b1 in 0..=255u8 {
                    let mut w1 = w0.fork();
                    if !w1.step(b1, &mut ft, &fresh, &uni2, true, &mut out) {
                        continue;
                    }
                    for b2 in 0..=255u8 {
                        let mut w2 = w1.fork();
                        if !w2.step(b2, &mut ft, &fresh, &uni2, true, &mut out) {
                            continue;
                        }
                        out.streams += 1;
                        if deep {
                            // all 256 fourth bytes: 2^32 four-byte streams in total
                            for b3 in 0..=255u8 {
                                let mut w3 = Walker {
                                    d: w2.d.clone(),
                                    seg: w2.seg.clone(),
                                    hist: Vec::new(),
                                    prev_was_err: w2.prev_was_err,
                                };
                                let n_before = out.violations.len();
                                w3.step(b3, &mut ft, &fresh, &uni2, false, &mut out);
                                out.streams4 += 1;
                                if out.violations.len() > n_before {
                                    // attach the full history to the replay of the new violation
                                    let mut h = w2.hist.clone();
                                    h.push(b3);
                                    if let Some(v) = out.violations.last_mut() {
                                        v.2.set("bytes", J::Arr(h.iter().map(|b| J::u(*b as u64)).collect()));
                                        v.2.set("bytes_hex", J::s(hex_bytes(&h)));
                                    }
                                    if out.violations.len() > 3000 {
                                        out.violations.truncate(3000);
                                    }
                                }
                            }
                        }
                    }
                }
            }
            b0 += threads;
        }
        out
    });
    let mut streams3 = 0u64;
    let mut streams4 = 0u64;
    for s in shards {
        streams3 += s.streams;
        streams4 += s.streams4;
        merge(&mut out, s);
    }
    rep.count(&format!("{}_three_byte_streams_completed", set_name(set)), streams3);
    if deep {
        rep.count(&format!("{}_four_byte_streams", set_name(set)), streams4);
    }

    // ---------------------------------------------------------------- (b2) a complete sequence two or three times in a row
    //      (the same garbage again and again, a key bouncing), then every one- and two-byte sequence: every (prefix, byte)
    //      sequence A, the stream A A (and A A A) followed by every (prefix', byte') – each byte judged as above
    {
        let prefixes: Vec<Vec<u8>> = if set == 1 { vec![vec![], vec![0xE0], vec![0xE1]] } else { vec![vec![], vec![0xE0], vec![0xE1], vec![0xF0]] };
        let uni3 = uni.clone();
        // on ONE thread: state the decoders may keep outside themselves (a static) is then touched by this stream only
        let threads = 1usize;
        let shards = par_map(threads, move |t| {
            let mut out = Out::default();
            let mut ft: FreshTable<D> = FreshTable::new();
            let fresh = D::fresh();
            let mut n = 0usize;
            for p in prefixes.iter() {
                for b in 0..=255u8 {
                    n += 1;
                    if n % threads != t {
                        continue;
                    }
                    let mut a = p.clone();
                    a.push(b);
                    // every stream is fed from its first byte (no forking): state kept outside the decoder object is not forked
                    for k in [2usize, 3] {
                        for p2 in prefixes.iter() {
                            for b2 in 0..=255u8 {
                                let mut w: Walker<D> = Walker::new();
                                let mut stream: Vec<u8> = Vec::new();
                                for _ in 0..k {
                                    stream.extend_from_slice(&a);
                                }
                                stream.extend_from_slice(p2);
                                stream.push(b2);
                                for x in stream.iter() {
                                    if !w.step(*x, &mut ft, &fresh, &uni3, true, &mut out) {
                                        break;
                                    }
                                }
                                out.streams += 1;
                            }
                        }
                    }
                    if out.violations.len() > 3000 {
                        out.violations.truncate(3000);
                    }
                }
            }
            out
        });
        let mut n = 0u64;
        for s in shards {
            n += s.streams;
            merge(&mut out, s);
        }
        rep.count(&format!("{}_streams_of_a_sequence_repeated_then_every_short_sequence", set_name(set)), n);
    }

    // ---------------------------------------------------------------- (c) long hostile histories
    let (n_hist, hist_len) = if rep.thorough() { (200_000usize, 1000usize) } else { (4_000, 250) };
    let seed = rep.seed;
    let uni2 = uni.clone();
    let shards = par_map(threads, move |t| {
        let mut out = Out::default();
        let mut ft: FreshTable<D> = FreshTable::new();
        let fresh = D::fresh();
        let r = ref_for(set);
        let typist = Typist::new(set, &r);
        let mut h = t;
        while h < n_hist {
            let mut rng = Rng::fork(seed, (h as u64) << 8 | 0x70 | set as u64);
            let which = [0usize, 1, 3, 4, 5][h % 5];
            let long = h < 16; // sixteen long histories: anything that only shows after many bytes
            let bytes = typist.generate(which, &mut rng, if long { hist_len * 400 } else { hist_len });
            let mut w: Walker<D> = Walker::new();
            for b in bytes {
                if !w.step(b, &mut ft, &fresh, &uni2, !long, &mut out) {
                    break;
                }
            }
            out.streams += 1;
            h += threads;
        }
        out
    });
    let mut hist_n = 0;
    for s in shards {
        hist_n += s.streams;
        merge(&mut out, s);
    }
    rep.count(&format!("{}_hostile_histories", set_name(set)), hist_n);
    let _ = &mut ft;

    rep.evaluations += out.bytes;
    rep.panics += out.panics;
    rep.count(&format!("{}_stream_bytes_walked", set_name(set)), out.bytes);
    rep.count(&format!("{}_final_results_checked_for_resync", set_name(set)), out.finals);
    rep.count(&format!("{}_bytes_directly_after_an_error", set_name(set)), out.errs_followed);
    for (i, n) in out.none_runs.iter().enumerate() {
        rep.count(&format!("{}_sequences_with_{}_prefix_bytes", set_name(set), i), *n);
    }
    for (sg, what, rp) in out.violations {
        rep.violate(sg, what, rp);
    }
    rep.require("bytes directly after an error in stream walks", out.errs_followed, 1000);
    rep.distinct_nontrivial = nontrivial.len() as u64;
    rep.rule = "state graph of the real decoder (hook Eq/Debug) × 256 bytes: after every event/error the state must equal new() and a cloned twin must answer every next byte (and sampled second bytes) like a fresh decoder; \
                all 2^24 three-byte streams from new() (thorough: all 2^32 four-byte streams, prefixes shared through Clone) and seeded garbage histories walked with the 'result is a function of the bytes since the last event/error' oracle and the None-run bound; \
                distinct_nontrivial = distinct (state, byte) transitions that returned an event or an error"
        .into();
    rep.sample_str(format!(
        "{}: {} states, {} transitions, every one of the {} non-None transitions followed by 256 twin-vs-fresh continuation bytes",
        set_name(set),
        states.len(),
        transitions,
        nontrivial.len()
    ));
    for (name, (_, path, _)) in states.iter().take(6) {
        rep.sample_str(format!("{} state {} reached by [{}]", set_name(set), name, hex_bytes(path)));
    }
}

fn merge(a: &mut Out, b: Out) {
    a.structural_only += b.structural_only;
    a.bytes += b.bytes;
    a.finals += b.finals;
    a.errs_followed += b.errs_followed;
    a.panics += b.panics;
    for i in 0..4 {
        a.none_runs[i] += b.none_runs[i];
    }
    a.violations.extend(b.violations);
}

/// C07 covers both sets in one check.
pub fn run_both(rep: &mut Report) {
    use pc_keyboard::{ScancodeSet1, ScancodeSet2};
    run::<ScancodeSet2>(rep);
    let s2 = rep.states.unwrap_or(0);
    let t2 = rep.transitions.unwrap_or(0);
    let d2 = rep.distinct_nontrivial;
    let ex2 = rep.exhaustive.unwrap_or(false);
    run::<ScancodeSet1>(rep);
    rep.states = Some(s2 + rep.states.unwrap_or(0));
    rep.transitions = Some(t2 + rep.transitions.unwrap_or(0));
    rep.distinct_nontrivial += d2;
    rep.exhaustive = Some(ex2 && rep.exhaustive.unwrap_or(false));
    rep.assumptions.push("the hook's derived PartialEq/Debug expose the decoder's complete state; the stream sweeps do not rely on it (they compare behaviour with a fresh decoder)".into());
}
