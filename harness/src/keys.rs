//! The key universe, modifier enumeration and value rendering shared by all monitors.
//!
//! The harness never matches exhaustively on `KeyCode` and never transmutes integers into it:
//! the universe is the list below plus any key the real decoders are observed to emit.

use pc_keyboard::{DecodedKey, Error, HandleControl, KeyCode, KeyEvent, KeyState, Modifiers};

use KeyCode::*;
pub const NAMED_KEYS: [KeyCode; 124] = [
    Escape, F1, F2, F3, F4, F5, F6, F7, F8, F9, F10, F11, F12, PrintScreen, SysRq, ScrollLock,
    PauseBreak, Oem8, Key1, Key2, Key3, Key4, Key5, Key6, Key7, Key8, Key9, Key0, OemMinus,
    OemPlus, Backspace, Insert, Home, PageUp, NumpadLock, NumpadDivide, NumpadMultiply,
    NumpadSubtract, Tab, Q, W, E, R, T, Y, U, I, O, P, Oem4, Oem6, Oem5, Oem7, Delete, End,
    PageDown, Numpad7, Numpad8, Numpad9, NumpadAdd, CapsLock, A, S, D, F, G, H, J, K, L, Oem1,
    Oem3, Return, Numpad4, Numpad5, Numpad6, LShift, Z, X, C, V, B, N, M, OemComma, OemPeriod,
    Oem2, RShift, ArrowUp, Numpad1, Numpad2, Numpad3, NumpadEnter, LControl, LWin, LAlt,
    Spacebar, RAltGr, RWin, Apps, RControl, ArrowLeft, ArrowDown, ArrowRight, Numpad0,
    NumpadPeriod, Oem9, Oem10, Oem11, Oem12, Oem13, PrevTrack, NextTrack, Mute, Calculator,
    Play, Stop, VolumeDown, VolumeUp, WWWHome, PowerOnTestOk, TooManyKeys, RControl2, RAlt2,
];

/// The nine keys whose press/release the event decoder tracks.
pub const MOD_KEYS: [KeyCode; 9] = [
    LShift, RShift, LControl, RControl, LAlt, RAltGr, RControl2, CapsLock, NumpadLock,
];

pub const STATES: [KeyState; 3] = [KeyState::Down, KeyState::Up, KeyState::SingleShot];
pub const MODES: [HandleControl; 2] = [HandleControl::MapLettersToUnicode, HandleControl::Ignore];

#[inline]
pub fn kidx(k: KeyCode) -> usize {
    k as u8 as usize
}

/// Sequences (set, bytes) whose decoded key is not one of the named keys.  Runs the real decoders over every
/// prefix × byte, so it is executed in a *child process* (`monitor --list-extra-keys`): if the tree under test
/// aborts on some garbage byte, only the child dies and the universe falls back to the named keys.
pub fn list_extra_key_sequences() -> Vec<(u8, Vec<u8>)> {
    use pc_keyboard::{ScancodeSet, ScancodeSet1, ScancodeSet2};
    let mut out: Vec<(u8, Vec<u8>)> = Vec::new();
    let prefixes: [&[u8]; 6] = [&[], &[0xE0], &[0xE1], &[0xF0], &[0xE0, 0xF0], &[0xE1, 0xF0]];
    for p in prefixes.iter() {
        for b in 0..=255u8 {
            let mut seq = p.to_vec();
            seq.push(b);
            let r = std::panic::catch_unwind(|| {
                let mut d = ScancodeSet2::new();
                let mut last = Ok(None);
                for x in seq.iter() {
                    last = d.advance_state(*x);
                }
                last
            });
            if let Ok(Ok(Some(ev))) = r {
                if !NAMED_KEYS.contains(&ev.code) {
                    out.push((2, seq.clone()));
                }
            }
            if p.len() <= 1 && (p.is_empty() || p[0] != 0xF0) {
                let r = std::panic::catch_unwind(|| {
                    let mut d = ScancodeSet1::new();
                    let mut last = Ok(None);
                    for x in seq.iter() {
                        last = d.advance_state(*x);
                    }
                    last
                });
                if let Ok(Ok(Some(ev))) = r {
                    if !NAMED_KEYS.contains(&ev.code) {
                        out.push((1, seq.clone()));
                    }
                }
            }
        }
    }
    out
}

static UNIVERSE: std::sync::OnceLock<Vec<KeyCode>> = std::sync::OnceLock::new();

/// Key universe: named keys plus anything else a decoder emitted.
pub fn universe() -> Vec<KeyCode> {
    UNIVERSE
        .get_or_init(|| {
            use pc_keyboard::{ScancodeSet, ScancodeSet1, ScancodeSet2};
            let mut v: Vec<KeyCode> = NAMED_KEYS.to_vec();
            let exe = match std::env::current_exe() {
                Ok(e) => e,
                Err(_) => return v,
            };
            let out = match std::process::Command::new(exe).arg("--list-extra-keys").output() {
                Ok(o) if o.status.success() => String::from_utf8_lossy(&o.stdout).to_string(),
                _ => return v, // the child died or is not the monitor binary: named keys only
            };
            for line in out.lines() {
                let mut it = line.split_whitespace();
                let (Some(set), Some(hex)) = (it.next(), it.next()) else { continue };
                let bytes: Vec<u8> = (0..hex.len() / 2).filter_map(|i| u8::from_str_radix(&hex[2 * i..2 * i + 2], 16).ok()).collect();
                // the child decoded this sequence without crashing, so it is safe to decode it here to obtain the value
                let r = std::panic::catch_unwind(|| {
                    if set == "1" {
                        let mut d = ScancodeSet1::new();
                        let mut last = Ok(None);
                        for x in bytes.iter() {
                            last = d.advance_state(*x);
                        }
                        last
                    } else {
                        let mut d = ScancodeSet2::new();
                        let mut last = Ok(None);
                        for x in bytes.iter() {
                            last = d.advance_state(*x);
                        }
                        last
                    }
                });
                if let Ok(Ok(Some(ev))) = r {
                    if !v.contains(&ev.code) {
                        v.push(ev.code);
                    }
                }
            }
            v
        })
        .clone()
}

pub fn key_by_name(name: &str) -> Option<KeyCode> {
    NAMED_KEYS.iter().copied().find(|k| kname(*k) == name)
}

pub fn kname(k: KeyCode) -> String {
    format!("{:?}", k)
}

// ------------------------------------------------------------------ modifiers

/// bit order: lshift rshift lctrl rctrl numlock capslock lalt ralt rctrl2
pub const MOD_NAMES: [&str; 9] = [
    "lshift", "rshift", "lctrl", "rctrl", "numlock", "capslock", "lalt", "ralt", "rctrl2",
];
pub const B_LSHIFT: u16 = 1;
pub const B_RSHIFT: u16 = 2;
pub const B_LCTRL: u16 = 4;
pub const B_RCTRL: u16 = 8;
pub const B_NUMLOCK: u16 = 16;
pub const B_CAPSLOCK: u16 = 32;
pub const B_LALT: u16 = 64;
pub const B_RALT: u16 = 128;
pub const B_RCTRL2: u16 = 256;

#[inline]
pub fn mods_from_bits(b: u16) -> Modifiers {
    // `..Default::default()` keeps the harness building if the crate ever adds a flag
    #[allow(clippy::needless_update)]
    Modifiers {
        lshift: b & B_LSHIFT != 0,
        rshift: b & B_RSHIFT != 0,
        lctrl: b & B_LCTRL != 0,
        rctrl: b & B_RCTRL != 0,
        numlock: b & B_NUMLOCK != 0,
        capslock: b & B_CAPSLOCK != 0,
        lalt: b & B_LALT != 0,
        ralt: b & B_RALT != 0,
        rctrl2: b & B_RCTRL2 != 0,
        ..Default::default()
    }
}

#[inline]
pub fn bits_from_mods(m: &Modifiers) -> u16 {
    (m.lshift as u16)
        | (m.rshift as u16) << 1
        | (m.lctrl as u16) << 2
        | (m.rctrl as u16) << 3
        | (m.numlock as u16) << 4
        | (m.capslock as u16) << 5
        | (m.lalt as u16) << 6
        | (m.ralt as u16) << 7
        | (m.rctrl2 as u16) << 8
}

pub fn mods_str(b: u16) -> String {
    let mut parts = Vec::new();
    for (i, n) in MOD_NAMES.iter().enumerate() {
        if b & (1 << i) != 0 {
            parts.push(*n);
        }
    }
    if parts.is_empty() {
        "{}".to_string()
    } else {
        format!("{{{}}}", parts.join("+"))
    }
}

/// The five facts of property C11, computed by the *harness* (not by the crate's predicates).
#[derive(Clone, Copy, PartialEq, Eq, Debug)]
pub struct Facts {
    pub shift: bool,
    pub ctrl: bool,
    pub altgr: bool,
    pub caps: bool,
    pub numlock: bool,
}
#[inline]
pub fn facts(b: u16) -> Facts {
    let shift = b & (B_LSHIFT | B_RSHIFT) != 0;
    let ctrl = b & (B_LCTRL | B_RCTRL) != 0;
    let altgr = (b & B_RALT != 0) || ((b & B_LALT != 0) && ctrl);
    Facts {
        shift,
        ctrl,
        altgr,
        caps: b & B_CAPSLOCK != 0,
        numlock: b & B_NUMLOCK != 0,
    }
}

pub fn mode_str(h: HandleControl) -> &'static str {
    match h {
        HandleControl::MapLettersToUnicode => "Map",
        HandleControl::Ignore => "Ignore",
    }
}
pub fn mode_idx(h: HandleControl) -> usize {
    match h {
        HandleControl::MapLettersToUnicode => 0,
        HandleControl::Ignore => 1,
    }
}

// ------------------------------------------------------------------ rendering

pub fn state_str(s: KeyState) -> &'static str {
    match s {
        KeyState::Up => "Up",
        KeyState::Down => "Down",
        KeyState::SingleShot => "SingleShot",
    }
}

pub fn ev_str(e: &KeyEvent) -> String {
    format!("{}({:?})", state_str(e.state), e.code)
}

pub fn res_str(r: &Result<Option<KeyEvent>, Error>) -> String {
    match r {
        Ok(None) => "None".to_string(),
        Ok(Some(e)) => ev_str(e),
        Err(e) => format!("Err({:?})", e),
    }
}

pub fn char_str(c: char) -> String {
    let n = c as u32;
    if n < 0x20 || n == 0x7f || (0x80..0xa0).contains(&n) || n >= 0xE000 && n < 0xF900 || n >= 0xF0000 {
        format!("U+{:04X}", n)
    } else {
        format!("'{}'", c)
    }
}

pub fn dk_str(d: &DecodedKey) -> String {
    match d {
        DecodedKey::Unicode(c) => char_str(*c),
        DecodedKey::RawKey(k) => format!("Raw({:?})", k),
    }
}

pub fn odk_str(d: &Option<DecodedKey>) -> String {
    match d {
        None => "None".into(),
        Some(d) => dk_str(d),
    }
}

/// Compact encoding of a DecodedKey for the observation cube.
#[inline]
pub fn dk_enc(d: DecodedKey) -> u32 {
    match d {
        DecodedKey::Unicode(c) => c as u32,
        DecodedKey::RawKey(k) => 0x8000_0000 | (k as u8 as u32),
    }
}
pub const ENC_PANIC: u32 = 0xFFFF_FFFF;
#[inline]
pub fn enc_is_raw(e: u32) -> bool {
    e & 0x8000_0000 != 0 && e != ENC_PANIC
}
#[inline]
pub fn enc_char(e: u32) -> Option<char> {
    if e & 0x8000_0000 == 0 {
        char::from_u32(e)
    } else {
        None
    }
}
pub fn enc_str(e: u32, uni: &[KeyCode]) -> String {
    if e == ENC_PANIC {
        return "PANIC".into();
    }
    if let Some(c) = enc_char(e) {
        char_str(c)
    } else {
        let idx = (e & 0xff) as usize;
        match uni.iter().find(|k| kidx(**k) == idx) {
            Some(k) => format!("Raw({:?})", k),
            None => format!("Raw(#{})", idx),
        }
    }
}
pub fn enc_raw_key(e: u32, uni: &[KeyCode]) -> Option<KeyCode> {
    if enc_is_raw(e) {
        let idx = (e & 0xff) as usize;
        uni.iter().copied().find(|k| kidx(*k) == idx)
    } else {
        None
    }
}

pub fn hex_bytes(b: &[u8]) -> String {
    b.iter().map(|x| format!("{:02X}", x)).collect::<Vec<_>>().join(" ")
}
