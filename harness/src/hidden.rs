//! Watching the executable's own writable static memory (.data / .bss) around calls that the properties treat as
//! pure look-ups.  A look-up that writes there keeps process-wide state that no `Debug` rendering shows.  That alone
//! is no violation (a diagnostic counter is harmless), so the finding is only used to *steer*: inputs after which
//! some written word holds the same value cannot be told apart by that word, and exactly those are then looked up
//! back to back under the property's own oracle (a cache keyed on a lossy hash answers the second with the first).
//!
//! Linux only (/proc/self/maps); anything unexpected makes the probe step aside with a note, never a verdict.

use std::collections::BTreeSet;

pub struct Regions {
    regs: Vec<(usize, usize)>,
    pub bytes: usize,
}

/// The rw mappings backed by the running executable, plus the anonymous rw mapping that directly follows (.bss).
pub fn exe_rw_regions() -> Option<Regions> {
    let exe = std::fs::read_link("/proc/self/exe").ok()?;
    let exe = exe.to_string_lossy().into_owned();
    let maps = std::fs::read_to_string("/proc/self/maps").ok()?;
    let mut regs: Vec<(usize, usize)> = Vec::new();
    let mut last_exe_end: Option<usize> = None;
    for line in maps.lines() {
        let mut it = line.split_whitespace();
        let (Some(range), Some(perms)) = (it.next(), it.next()) else { continue };
        let path = it.nth(3).unwrap_or("");
        let (Some(a), Some(b)) = (range.split('-').next(), range.split('-').nth(1)) else { continue };
        let (Ok(a), Ok(b)) = (usize::from_str_radix(a, 16), usize::from_str_radix(b, 16)) else { continue };
        if path == exe {
            if perms.starts_with("rw") {
                regs.push((a, b));
            }
            last_exe_end = Some(b);
        } else if path.is_empty() && perms.starts_with("rw") && last_exe_end == Some(a) {
            regs.push((a, b));
            last_exe_end = None;
        } else {
            last_exe_end = None;
        }
    }
    let bytes: usize = regs.iter().map(|(a, b)| b - a).sum();
    if regs.is_empty() || bytes > (64 << 20) {
        return None;
    }
    Some(Regions { regs, bytes })
}

impl Regions {
    pub fn snapshot_into(&self, buf: &mut Vec<u8>) {
        buf.clear();
        for (a, b) in &self.regs {
            // SAFETY: the range is a readable mapping of this process, taken from /proc/self/maps; the bytes are read
            // as plain u8 while no other thread of the harness is running
            let s = unsafe { std::slice::from_raw_parts(*a as *const u8, b - a) };
            buf.extend_from_slice(s);
        }
    }
    /// address of the byte at `offset` of the concatenated snapshot
    pub fn addr(&self, mut offset: usize) -> usize {
        for (a, b) in &self.regs {
            if offset < b - a {
                return a + offset;
            }
            offset -= b - a;
        }
        0
    }
}

/// Words (granularity 2, 4, 8; aligned) that cover the bytes found written.
pub fn words_over(touched: &BTreeSet<usize>, regions: &Regions) -> Vec<(usize, usize)> {
    let mut w: BTreeSet<(usize, usize)> = BTreeSet::new();
    for off in touched {
        let a = regions.addr(*off);
        if a == 0 {
            continue;
        }
        for g in [2usize, 4, 8] {
            w.insert((g, a & !(g - 1)));
        }
    }
    w.into_iter().collect()
}

#[inline]
pub fn read_word(g: usize, addr: usize) -> u64 {
    // SAFETY: `addr` is aligned to `g` and lies in a readable mapping of this process (see words_over)
    unsafe {
        match g {
            2 => std::ptr::read_volatile(addr as *const u16) as u64,
            4 => std::ptr::read_volatile(addr as *const u32) as u64,
            _ => std::ptr::read_volatile(addr as *const u64),
        }
    }
}

/// `vals` = (value one written word held after the look-up, input number) for every input.  Adds the ordered pairs
/// of distinct inputs that left the word with the same value (at most `cap` inputs per value) to `out`.
pub fn colliding_pairs(vals: &mut Vec<(u64, u32)>, cap: usize, out: &mut BTreeSet<(u32, u32)>, limit: usize) {
    vals.sort_unstable();
    let mut i = 0;
    while i < vals.len() {
        let mut j = i;
        while j < vals.len() && vals[j].0 == vals[i].0 {
            j += 1;
        }
        if j - i >= 2 {
            let group: Vec<u32> = vals[i..j].iter().map(|v| v.1).take(cap).collect();
            for a in &group {
                for b in &group {
                    if a != b && out.len() < limit {
                        out.insert((*a, *b));
                    }
                }
            }
        }
        i = j;
    }
}

// ------------------------------------------------------------------------------------------------------------------
// Counters in static memory: found by watching, then fast-forwarded to just before each of their wrap-arounds.
//
// A word of static memory whose lowest byte only ever goes up by one (or stays) while a workload runs is a counter of
// something the workload does.  Every value of such a counter is reachable by repeating that something often enough,
// so writing "just below the next power of 256" into it puts the process into a state it would reach by itself after
// 2^8, 2^16 or 2^32 of those events – and the property's own oracle is then run across the wrap.  The counter's true
// width is never guessed: the next wider value is written only after a carry into the next byte has been *observed*.

pub struct CounterRun {
    pub counters_found: usize,
    pub wraps_driven: Vec<String>,
    /// (stage label, signature, description) from the workload's own oracle
    pub violations: Vec<(String, String, String)>,
    pub note: Option<String>,
}

/// `step` performs one operation of a cyclic, self-checking workload and returns Some((signature, description)) when the
/// property's oracle is contradicted.  Single-threaded: no other thread of the process may run meanwhile.
pub fn fast_forward_static_counters(regions: &Regions, step: &mut dyn FnMut() -> Option<(String, String)>, ops_per_stage: usize) -> CounterRun {
    let mut out = CounterRun { counters_found: 0, wraps_driven: Vec::new(), violations: Vec::new(), note: None };
    let (mut a, mut b) = (Vec::with_capacity(regions.bytes), Vec::with_capacity(regions.bytes));
    // warm-up, then which bytes change at all while the workload runs
    for _ in 0..ops_per_stage {
        let _ = step();
    }
    regions.snapshot_into(&mut a);
    regions.snapshot_into(&mut b);
    if a != b {
        out.note = Some("static memory changes between two snapshots with nothing in between; counter search abandoned".into());
        return out;
    }
    let mut touched: BTreeSet<usize> = BTreeSet::new();
    for _ in 0..ops_per_stage.min(512) {
        regions.snapshot_into(&mut a);
        let _ = step();
        regions.snapshot_into(&mut b);
        for (i, (x, y)) in a.iter().zip(b.iter()).enumerate() {
            if x != y {
                touched.insert(i);
            }
        }
        if touched.len() > 256 {
            out.note = Some(format!("{} bytes of static memory change while the workload runs; counter search abandoned", touched.len()));
            return out;
        }
    }
    if touched.is_empty() {
        return out;
    }
    // a counter's lowest byte: every change is +1 (mod 256), and it does change
    let cands: Vec<usize> = touched.iter().map(|o| regions.addr(*o)).filter(|a| *a != 0).collect();
    let rd = |addr: usize| -> u8 { unsafe { std::ptr::read_volatile(addr as *const u8) } };
    let mut last: Vec<u8> = cands.iter().map(|c| rd(*c)).collect();
    let mut ok: Vec<bool> = vec![true; cands.len()];
    let mut incs: Vec<u32> = vec![0; cands.len()];
    for _ in 0..ops_per_stage {
        let _ = step();
        for (i, c) in cands.iter().enumerate() {
            let v = rd(*c);
            if v == last[i].wrapping_add(1) {
                incs[i] += 1;
            } else if v != last[i] {
                ok[i] = false;
            }
            last[i] = v;
        }
    }
    let lows: Vec<usize> = cands.iter().enumerate().filter(|(i, _)| ok[*i] && incs[*i] >= 8).map(|(_, c)| *c).collect();
    // a byte that carries out of a lower counter byte looks like a slow counter itself: keep only the lowest byte of a run
    let lows: Vec<usize> = lows.iter().copied().filter(|c| !lows.contains(&(c.wrapping_sub(1)))).collect();
    out.counters_found = lows.len();
    for base in lows.iter().take(8) {
        let mut width = 1usize; // bytes known to belong to the counter
        loop {
            let low = |w: usize| -> u64 { (0..w).fold(0u64, |acc, i| acc | (rd(base + i) as u64) << (8 * i)) };
            let (mut wrapped_any, mut carried_any, mut above_moved_otherwise) = (false, false, false);
            // several distances from the wrap, so that the wrapping operation falls on different positions of the workload
            for margin in 12u64..28 {
                // just below the wrap of the `width` low bytes; the bytes above are left as they are
                let target: u64 = (1u64 << (8 * width)) - margin;
                for i in 0..width {
                    // SAFETY: `base..base+width` are bytes of this process's static memory that the workload itself was seen to
                    // write as one counter (carry observed from each byte into the next); no other thread is running
                    unsafe { std::ptr::write_volatile((base + i) as *mut u8, (target >> (8 * i)) as u8) };
                }
                let label = format!("counter at static+{:#x} set to 2^{}-{}", base & 0xFFFF, 8 * width, margin);
                let mut wrapped = false;
                let (mut prev_low, mut prev_above) = (low(width), rd(base + width));
                for _ in 0..ops_per_stage {
                    if let Some((sig, what)) = step() {
                        if out.violations.len() < 20 {
                            out.violations.push((label.clone(), sig, what));
                        }
                    }
                    let (cur_low, cur_above) = (low(width), rd(base + width));
                    let wrap_now = cur_low < prev_low;
                    if wrap_now {
                        wrapped = true;
                    }
                    if cur_above != prev_above {
                        if wrap_now && cur_above == prev_above.wrapping_add(1) {
                            carried_any = true;
                        } else {
                            above_moved_otherwise = true;
                        }
                    }
                    prev_low = cur_low;
                    prev_above = cur_above;
                }
                wrapped_any |= wrapped;
                if margin == 12 || !wrapped {
                    out.wraps_driven.push(format!("{}{}", label, if wrapped { " (and 15 more distances)" } else { " (the wrap was not reached)" }));
                }
                if !wrapped {
                    break;
                }
            }
            // the counter is wider only if the byte above moved with the wrap and at no other time
            if !wrapped_any || !carried_any || above_moved_otherwise || width >= 4 {
                break;
            }
            width *= 2;
        }
    }
    out
}

/// The whole procedure with its bookkeeping: search, fast-forward, report.  `behind` names the operation(s) the workload
/// drives (for the evidence).  Must be called while no other thread of the monitor is running.
pub fn counter_wraps(rep: &mut crate::report::Report, behind: &str, step: &mut dyn FnMut() -> Option<(String, String)>, ops_per_stage: usize) {
    let Some(regions) = exe_rw_regions() else {
        rep.notes.push("static-counter search: the executable's writable mappings could not be read from /proc/self/maps; skipped".into());
        return;
    };
    let mut steps = 0u64;
    let mut counted = || {
        steps += 1;
        step()
    };
    let run = fast_forward_static_counters(&regions, &mut counted, ops_per_stage);
    rep.evaluations += steps;
    rep.count(&format!("static_counters_found_behind_{}", behind), run.counters_found as u64);
    rep.count(&format!("static_counter_wraps_driven_behind_{}", behind), run.wraps_driven.len() as u64);
    if let Some(n) = run.note {
        rep.notes.push(format!("static-counter search ({}): {}", behind, n));
    }
    if run.counters_found == 0 {
        rep.notes.push(format!("static-counter search: no word of static memory counts anything while {} operations of {} run (nothing process-wide to fast-forward)", steps, behind));
    } else {
        rep.notes.push(format!("static-counter search: {} counter(s) in static memory behind {}; driven across: {}", run.counters_found, behind, run.wraps_driven.join("; ")));
    }
    for (stage, sig, what) in run.violations {
        rep.violate(
            sig,
            format!("with a {} (a value the counter reaches by itself): {}", stage, what),
            crate::json::J::obj().with("kind", crate::json::J::s("static-counter-wrap")).with("behind", crate::json::J::s(behind)).with("stage", crate::json::J::s(stage)),
        );
    }
}
