//! Watching the executable's own writable static memory (.data / .bss) around calls that the properties treat as
//! pure look-ups.  A look-up that writes there keeps process-wide state that no `Debug` rendering shows.  That alone
//! is no violation (a diagnostic counter is harmless), so the finding is only used to *steer*: inputs after which
//! some written word holds the same value cannot be told apart by that word, and exactly those are then looked up
//! back to back under the property's own oracle (a cache keyed on a lossy hash answers the second with the first).
//!
//! Linux only (/proc/self/maps); anything unexpected makes the probe step aside with a note, never a verdict.

use std::collections::BTreeSet;

pub struct Regions {
    regs: Vec<(usize, usize)>,
    pub bytes: usize,
}

/// The rw mappings backed by the running executable, plus the anonymous rw mapping that directly follows (.bss).
pub fn exe_rw_regions() -> Option<Regions> {
    let exe = std::fs::read_link("/proc/self/exe").ok()?;
    let exe = exe.to_string_lossy().into_owned();
    let maps = std::fs::read_to_string("/proc/self/maps").ok()?;
    let mut regs: Vec<(usize, usize)> = Vec::new();
    let mut last_exe_end: Option<usize> = None;
    for line in maps.lines() {
        let mut it = line.split_whitespace();
        let (Some(range), Some(perms)) = (it.next(), it.next()) else { continue };
        let path = it.nth(3).unwrap_or("");
        let (Some(a), Some(b)) = (range.split('-').next(), range.split('-').nth(1)) else { continue };
        let (Ok(a), Ok(b)) = (usize::from_str_radix(a, 16), usize::from_str_radix(b, 16)) else { continue };
        if path == exe {
            if perms.starts_with("rw") {
                regs.push((a, b));
            }
            last_exe_end = Some(b);
        } else if path.is_empty() && perms.starts_with("rw") && last_exe_end == Some(a) {
            regs.push((a, b));
            last_exe_end = None;
        } else {
            last_exe_end = None;
        }
    }
    let bytes: usize = regs.iter().map(|(a, b)| b - a).sum();
    if regs.is_empty() || bytes > (64 << 20) {
        return None;
    }
    Some(Regions { regs, bytes })
}

impl Regions {
    pub fn snapshot_into(&self, buf: &mut Vec<u8>) {
        buf.clear();
        for (a, b) in &self.regs {
            // SAFETY: the range is a readable mapping of this process, taken from /proc/self/maps; the bytes are read
            // as plain u8 while no other thread of the harness is running
            let s = unsafe { std::slice::from_raw_parts(*a as *const u8, b - a) };
            buf.extend_from_slice(s);
        }
    }
    /// address of the byte at `offset` of the concatenated snapshot
    pub fn addr(&self, mut offset: usize) -> usize {
        for (a, b) in &self.regs {
            if offset < b - a {
                return a + offset;
            }
            offset -= b - a;
        }
        0
    }
}

/// Words (granularity 2, 4, 8; aligned) that cover the bytes found written.
pub fn words_over(touched: &BTreeSet<usize>, regions: &Regions) -> Vec<(usize, usize)> {
    let mut w: BTreeSet<(usize, usize)> = BTreeSet::new();
    for off in touched {
        let a = regions.addr(*off);
        if a == 0 {
            continue;
        }
        for g in [2usize, 4, 8] {
            w.insert((g, a & !(g - 1)));
        }
    }
    w.into_iter().collect()
}

#[inline]
pub fn read_word(g: usize, addr: usize) -> u64 {
    // SAFETY: `addr` is aligned to `g` and lies in a readable mapping of this process (see words_over)
    unsafe {
        match g {
            2 => std::ptr::read_volatile(addr as *const u16) as u64,
            4 => std::ptr::read_volatile(addr as *const u32) as u64,
            _ => std::ptr::read_volatile(addr as *const u64),
        }
    }
}

/// `vals` = (value one written word held after the look-up, input number) for every input.  Adds the ordered pairs
/// of distinct inputs that left the word with the same value (at most `cap` inputs per value) to `out`.
pub fn colliding_pairs(vals: &mut Vec<(u64, u32)>, cap: usize, out: &mut BTreeSet<(u32, u32)>, limit: usize) {
    vals.sort_unstable();
    let mut i = 0;
    while i < vals.len() {
        let mut j = i;
        while j < vals.len() && vals[j].0 == vals[i].0 {
            j += 1;
        }
        if j - i >= 2 {
            let group: Vec<u32> = vals[i..j].iter().map(|v| v.1).take(cap).collect();
            for a in &group {
                for b in &group {
                    if a != b && out.len() < limit {
                        out.insert((*a, *b));
                    }
                }
            }
        }
        i = j;
    }
}
