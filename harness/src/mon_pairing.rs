//! C19 — make/break pairing and one-to-one sequences within each scancode set (reference-free).

use crate::json::J;
use crate::keys::*;
use crate::report::*;
use crate::scan::*;
use pc_keyboard::{KeyCode, KeyState};
use std::collections::BTreeMap;

const CTX: [(&str, &[u8]); 3] = [("plain", &[]), ("e0", &[0xE0]), ("e1", &[0xE1])];

fn decode<D: Dec>(seq: &[u8]) -> Result<(Res, usize), String> {
    // returns the result of the last byte and how many earlier bytes returned something other than None
    guarded(|| {
        let mut d = D::fresh();
        let mut early = 0;
        let mut last = Ok(None);
        for (i, b) in seq.iter().enumerate() {
            last = d.advance_state(*b);
            if i + 1 < seq.len() && !matches!(last, Ok(None)) {
                early += 1;
            }
        }
        (last, early)
    })
}

fn replay(set: u8, seqs: &[&[u8]], expected: &str, got: &str) -> J {
    J::obj()
        .with("kind", J::s("byte-seqs"))
        .with("set", J::u(set as u64))
        .with("seqs", J::Arr(seqs.iter().map(|s| J::Arr(s.iter().map(|b| J::u(*b as u64)).collect())).collect()))
        .with("expected_last", J::s(expected))
        .with("observed_last", J::s(got))
}

pub fn run<D: Dec>(rep: &mut Report) {
    // ---- pairing on a decoder that has been through a very long run of one thing (soak_checkpoints): a key's make form must
    //      still be a press and its break form the release of the same key, exactly as on a fresh decoder
    {
        let kmax: u32 = if light() { 17 } else if rep.thorough() { 26 } else { 24 };
        let r = ref_for(D::SET);
        let typist = Typist::new(D::SET, &r);
        let pairs: Vec<(Vec<u8>, Vec<u8>)> = typist.make.iter().cloned().zip(typist.brk.iter().cloned()).enumerate().filter(|(i, _)| i % 7 == 0).map(|(_, p)| p).collect();
        let run = |d0: &D, seq: &[u8]| -> Option<Res> {
            guarded(|| {
                let mut d = d0.clone();
                let mut last = Ok(None);
                for b in seq {
                    last = d.advance_state(*b);
                }
                last
            })
            .ok()
        };
        let points = soak_checkpoints::<D>(kmax);
        let mut n = 0u64;
        'outer: for sp in points.iter() {
            for (m, b) in pairs.iter() {
                let mut mb = m.clone();
                mb.extend(b);
                let fresh = D::fresh();
                for (form, seq) in [("make", m), ("make+break", &mb)] {
                    n += 1;
                    let (got, want) = (run(&sp.d, seq), run(&fresh, seq));
                    if got != want {
                        let show = |x: &Option<Res>| x.as_ref().map(res_str).unwrap_or_else(|| "PANIC".into());
                        rep.violate(
                            format!("C19|{}|after-soak|unit=[{}]|{}=[{}]|want={}|got={}", set_name(D::SET), hex_bytes(&sp.unit), form, hex_bytes(seq), show(&want), show(&got)),
                            format!(
                                "{}: {} (after [{}]): after {} repetitions of [{}] the {} form [{}] decodes to {}; on a fresh decoder it is {} – press and release are no longer paired",
                                set_name(D::SET), sp.what, hex_bytes(&sp.pre), sp.n, hex_bytes(&sp.unit), form, hex_bytes(seq), show(&got), show(&want)
                            ),
                            J::obj().with("kind", J::s("checkpointed-soak")).with("set", J::u(D::SET as u64)).with("pre_hex", J::s(hex_bytes(&sp.pre))).with("unit_hex", J::s(hex_bytes(&sp.unit))).with("repetitions", J::u(sp.n)),
                        );
                        break 'outer;
                    }
                }
            }
        }
        rep.evaluations += n;
        rep.count(&format!("{}_pairings_checked_at_soak_checkpoints", set_name(D::SET)), n);
    }
    let set = D::SET;
    let mut downs: BTreeMap<KeyCode, Vec<Vec<u8>>> = BTreeMap::new();
    let mut ups: BTreeMap<KeyCode, Vec<Vec<u8>>> = BTreeMap::new();
    let mut pairs_checked = 0u64;
    let mut paired_keys = 0u64;
    let mut oneshots = 0u64;
    let mut incomplete = 0u64;
    let codes: u16 = if set == 1 { 128 } else { 256 };
    for (cname, prefix) in CTX.iter() {
        for code in 0..codes {
            let code = code as u8;
            let mut mk: Vec<u8> = prefix.to_vec();
            let mut bk: Vec<u8> = prefix.to_vec();
            if set == 1 {
                mk.push(code);
                bk.push(code | 0x80);
            } else {
                mk.push(code);
                bk.push(0xF0);
                bk.push(code);
            }
            rep.evaluations += 2;
            let rm = decode::<D>(&mk);
            let rb = decode::<D>(&bk);
            // a panicking decode is "no key event" for this property (the panic itself is C08's matter)
            let unpack = |r: Result<(Res, usize), String>, n: &mut u64| match r {
                Ok(x) => x,
                Err(_) => {
                    *n += 1;
                    (Err(pc_keyboard::Error::UnknownKeyCode), 0)
                }
            };
            let mut panicked = 0u64;
            let rm = unpack(rm, &mut panicked);
            let rb = unpack(rb, &mut panicked);
            rep.panics += panicked;
            // a sequence is "complete" only if every byte before the last returned None
            if rm.1 > 0 || rb.1 > 0 || (matches!(rm.0, Ok(None)) && matches!(rb.0, Ok(None))) {
                incomplete += 1;
                if rm.1 > 0 || rb.1 > 0 {
                    continue;
                }
            }
            pairs_checked += 1;
            let m = rm.0;
            let b = rb.0;
            let down_key = match &m {
                Ok(Some(e)) if e.state == KeyState::Down => Some(e.code),
                _ => None,
            };
            let up_key = match &b {
                Ok(Some(e)) if e.state == KeyState::Up => Some(e.code),
                _ => None,
            };
            if let Ok(Some(e)) = &m {
                if e.state == KeyState::SingleShot {
                    oneshots += 1;
                    rep.sample_str(format!("{} [{}] → {} (one-shot status code, set aside)", set_name(set), hex_bytes(&mk), res_str(&m)));
                    continue;
                }
            }
            if let Some(k) = down_key {
                downs.entry(k).or_default().push(mk.clone());
            }
            if let Some(k) = up_key {
                ups.entry(k).or_default().push(bk.clone());
            }
            if down_key != up_key {
                rep.violate(
                    format!("C19|{}|ctx={}|code=0x{:02X}|make={}|break={}", set_name(set), cname, code, res_str(&m), res_str(&b)),
                    format!(
                        "{}: make sequence [{}] decodes to {} but its break form [{}] decodes to {} – press and release are not paired",
                        set_name(set),
                        hex_bytes(&mk),
                        res_str(&m),
                        hex_bytes(&bk),
                        res_str(&b)
                    ),
                    replay(set, &[&mk, &bk], "Down(K) ⇔ Up(K)", &format!("{} / {}", res_str(&m), res_str(&b))),
                );
            } else if down_key.is_some() {
                paired_keys += 1;
                if paired_keys % 29 == 3 {
                    rep.sample_str(format!(
                        "{} [{}] → {}  ⇔  [{}] → {}",
                        set_name(set),
                        hex_bytes(&mk),
                        res_str(&m),
                        hex_bytes(&bk),
                        res_str(&b)
                    ));
                }
            }
        }
    }
    // ---- with history: press then release on the same decoder, and every ordered pair of distinct complete
    //      make sequences on one decoder must still denote distinct keys
    let makes: Vec<(KeyCode, Vec<u8>)> = downs.iter().flat_map(|(k, v)| v.iter().map(move |s| (*k, s.clone()))).collect();
    let brk_of = |mk: &Vec<u8>| -> Vec<u8> {
        let mut b = mk.clone();
        let code = b.pop().unwrap();
        if set == 1 {
            b.push(code | 0x80);
        } else {
            b.push(0xF0);
            b.push(code);
        }
        b
    };
    let run_on = |d: &mut D, seq: &[u8]| -> Res {
        let mut last = Ok(None);
        for b in seq {
            last = d.advance_state(*b);
        }
        last
    };
    let mut hist_pairs = 0u64;
    for (k1, s1) in makes.iter() {
        // press, then release, one decoder
        let r = guarded(|| {
            let mut d = D::fresh();
            let a = run_on(&mut d, s1);
            let b = run_on(&mut d, &brk_of(s1));
            (a, b)
        });
        rep.evaluations += 1;
        if let Ok((a, b)) = &r {
            let up = matches!(b, Ok(Some(e)) if e.state == KeyState::Up && e.code == *k1);
            if !up {
                rep.violate(
                    format!("C19|{}|press-then-release|seq=[{}]|press={}|release={}", set_name(set), hex_bytes(s1), res_str(a), res_str(b)),
                    format!("{}: [{}] pressed {:?}, but its break form fed to the same decoder right after gave {}", set_name(set), hex_bytes(s1), k1, res_str(b)),
                    replay(set, &[s1, &brk_of(s1)], &format!("Up({:?})", k1), &res_str(b)),
                );
            }
        }
        for (k2, s2) in makes.iter() {
            if s1 == s2 {
                continue;
            }
            let r = guarded(|| {
                let mut d = D::fresh();
                let a = run_on(&mut d, s1);
                let b = run_on(&mut d, s2);
                (a, b)
            });
            hist_pairs += 1;
            rep.evaluations += 1;
            if let Ok((Ok(Some(e1)), Ok(Some(e2)))) = &r {
                if e1.code == e2.code && e1.state == KeyState::Down && e2.state == KeyState::Down {
                    rep.violate(
                        format!("C19|{}|dup-press-with-history|key={:?}|seqs=[{}],[{}]", set_name(set), e1.code, hex_bytes(s1), hex_bytes(s2)),
                        format!(
                            "{}: the distinct sequences [{}] and [{}], fed one after the other, both decode as a press of {:?} (alone they denote {:?} and {:?})",
                            set_name(set),
                            hex_bytes(s1),
                            hex_bytes(s2),
                            e1.code,
                            k1,
                            k2
                        ),
                        replay(set, &[s1, s2], "distinct keys", &format!("both {:?}", e1.code)),
                    );
                }
            }
        }
    }
    rep.count(&format!("{}_ordered_pairs_of_distinct_make_sequences_on_one_decoder", set_name(set)), hist_pairs);
    // ---- the "if and only if" after a history: on two decoders that have both been through the same one or two complete
    //      sequences (keys still held, or just released), the make form of every sequence on the one and its break form on the
    //      other must name the same key – press of K there ⇔ release of K here
    {
        let mut hist: Vec<Vec<u8>> = vec![];
        for (_, s) in makes.iter() {
            hist.push(s.clone());
            hist.push(brk_of(s));
        }
        let n1 = hist.len();
        for (_, a) in makes.iter() {
            for (_, b) in makes.iter() {
                let mut h = a.clone();
                h.extend_from_slice(b);
                hist.push(h);
            }
        }
        let mut iff_checked = 0u64;
        let mut reported = 0;
        for (hi, h) in hist.iter().enumerate() {
            // quick: every single-sequence history, and a seeded quarter of the two-sequence ones
            if hi >= n1 && !rep.thorough() && (hi as u64 + rep.seed) % 4 != 0 {
                continue;
            }
            let r = guarded(|| {
                let mut bad = Vec::new();
                let mut base = D::fresh();
                let _ = run_on(&mut base, h);
                for (_, s2) in makes.iter() {
                    let mut d1 = base.clone();
                    let mut d2 = base.clone();
                    let m = run_on(&mut d1, s2);
                    let b = run_on(&mut d2, &brk_of(s2));
                    let down = match &m {
                        Ok(Some(e)) if e.state == KeyState::Down => Some(e.code),
                        _ => None,
                    };
                    let up = match &b {
                        Ok(Some(e)) if e.state == KeyState::Up => Some(e.code),
                        _ => None,
                    };
                    if down != up {
                        bad.push((s2.clone(), m, b));
                    }
                }
                bad
            });
            iff_checked += makes.len() as u64;
            rep.evaluations += makes.len() as u64;
            if let Ok(bad) = r {
                for (s2, m, b) in bad {
                    reported += 1;
                    if reported > 40 {
                        break;
                    }
                    rep.violate(
                        format!("C19|{}|iff-with-history|hist=[{}]|seq=[{}]|make={}|break={}", set_name(set), hex_bytes(h), hex_bytes(&s2), res_str(&m), res_str(&b)),
                        format!(
                            "{}: after [{}], the make sequence [{}] decodes to {} but its break form [{}] (same history) decodes to {} – press and release are not paired",
                            set_name(set), hex_bytes(h), hex_bytes(&s2), res_str(&m), hex_bytes(&brk_of(&s2)), res_str(&b)
                        ),
                        replay(set, &[h, &s2, &brk_of(&s2)], "Down(K) ⇔ Up(K)", &format!("{} / {}", res_str(&m), res_str(&b))),
                    );
                }
            }
        }
        rep.count(&format!("{}_make_and_break_forms_compared_after_a_history_of_one_or_two_sequences", set_name(set)), iff_checked);
    }

    // ---- in any history: a sequence in break form (Set 2: contains F0; Set 1: last byte has bit 7) never decodes as a
    //      press, and a sequence in make form never decodes as a release
    {
        use crate::rng::Rng;
        let r = ref_for(set);
        let typist = Typist::new(set, &r);
        let mut streams: Vec<Vec<u8>> = Vec::new();
        let sp = special_sequences(set);
        for a in sp.iter() {
            for b in sp.iter() {
                let mut v = a.clone();
                v.extend(b);
                streams.push(v);
            }
        }
        let n_hist = if rep.thorough() { 20_000 } else { 1_500 };
        for h in 0..n_hist {
            let mut rng = Rng::fork(rep.seed, 0xC19_0000 + ((h as u64) << 4) + set as u64);
            streams.push(typist.generate(h % 6, &mut rng, if h < 6 { 60_000 } else { 200 }));
        }
        let mut seqs_seen = 0u64;
        for bytes in streams.iter() {
            let res = guarded(|| {
                let mut d = D::fresh();
                let mut seg: Vec<u8> = Vec::new();
                let mut bad: Option<(Vec<u8>, String, usize)> = None;
                let mut n = 0u64;
                for (i, b) in bytes.iter().enumerate() {
                    seg.push(*b);
                    let r = d.advance_state(*b);
                    if matches!(r, Ok(None)) {
                        if seg.len() > 4 {
                            seg.clear();
                        }
                        continue;
                    }
                    n += 1;
                    let break_form = if set == 2 { seg.contains(&0xF0) } else { *b & 0x80 != 0 && *b != 0xE0 && *b != 0xE1 || (seg.len() > 1 && *b & 0x80 != 0) };
                    if let Ok(Some(e)) = &r {
                        let wrong = (break_form && e.state == KeyState::Down) || (!break_form && e.state == KeyState::Up);
                        if wrong && bad.is_none() {
                            bad = Some((seg.clone(), res_str(&r), i));
                        }
                    }
                    seg.clear();
                }
                (bad, n)
            });
            if let Ok((bad, n)) = res {
                seqs_seen += n;
                rep.evaluations += n;
                if let Some((seg, got, i)) = bad {
                    let hist = &bytes[i.saturating_sub(24)..=i];
                    rep.violate(
                        format!("C19|{}|form-vs-state|seq=[{}]|got={}", set_name(set), hex_bytes(&seg), got),
                        format!(
                            "{}: after … [{}] the sequence [{}], which is in {} form, decoded as {}",
                            set_name(set),
                            hex_bytes(hist),
                            hex_bytes(&seg),
                            if got.starts_with("Down") { "break" } else { "make" },
                            got
                        ),
                        replay(set, &[hist], "a break form never presses, a make form never releases", &got),
                    );
                }
            }
        }
        rep.count(&format!("{}_sequences_checked_for_form_vs_state_in_histories", set_name(set)), seqs_seen);
    }

    for (dir, map) in [("press", &downs), ("release", &ups)] {
        for (k, seqs) in map.iter() {
            if seqs.len() > 1 {
                let list: Vec<String> = seqs.iter().map(|s| format!("[{}]", hex_bytes(s))).collect();
                let refs: Vec<&[u8]> = seqs.iter().map(|s| s.as_slice()).collect();
                rep.violate(
                    format!("C19|{}|dup-{}|key={:?}|seqs={}", set_name(set), dir, k, list.join(",")),
                    format!("{}: distinct complete sequences {} all decode as a {} of {:?}", set_name(set), list.join(" and "), dir, k),
                    replay(set, &refs, "distinct sequences denote distinct keys", &format!("all → {:?}", k)),
                );
            }
        }
    }
    rep.count(&format!("{}_make_break_pairs_examined", set_name(set)), pairs_checked);
    rep.count(&format!("{}_keys_with_paired_press_and_release", set_name(set)), paired_keys);
    rep.count(&format!("{}_one_shot_codes_set_aside", set_name(set)), oneshots);
    rep.count(&format!("{}_incomplete_sequences_skipped", set_name(set)), incomplete);
    rep.count(&format!("{}_distinct_pressable_keys", set_name(set)), downs.len() as u64);
    rep.distinct_nontrivial += paired_keys;
    rep.require(&format!("{} paired keys", set_name(set)), paired_keys, 50);
}

pub fn run_both(rep: &mut Report) {
    use pc_keyboard::{ScancodeSet1, ScancodeSet2};
    run::<ScancodeSet2>(rep);
    run::<ScancodeSet1>(rep);
    rep.exhaustive = Some(true);
    rep.rule = "both real decoders × 3 prefix contexts × every code, make form and break form fed to fresh decoders; \
                press⇔release pairing per code and injectivity of sequence→key over all of them; no reference table; \
                distinct_nontrivial = keys observed with a correctly paired press and release"
        .into();
}
