//! C08 — no operation panics or overflows for any input in any reachable state.
//!
//! Oracle: "returned normally".  The build has overflow checks and debug assertions on, every
//! call goes through `catch_unwind`, and calls are counted per public operation; a run that did
//! not reach some public operation fails itself.  (The Miri pass, run by ./check in the thorough
//! tier, drives a reduced version of the same workloads under the UB-detecting interpreter.)

use crate::cube::Cube;
use crate::json::J;
use crate::keys::*;
use crate::layouts::*;
use crate::mon_compose::{hostile_ops, KOp};
use crate::report::*;
use crate::rng::Rng;
use crate::scan::*;
use pc_keyboard::{EventDecoder, HandleControl, KeyCode, KeyEvent, KeyState, Keyboard, Ps2Decoder, ScancodeSet1, ScancodeSet2};
use std::collections::{BTreeMap, BTreeSet, VecDeque};

pub const PUBLIC_OPS: [&str; 28] = [
    "ScancodeSet1::new",
    "ScancodeSet1::advance_state",
    "ScancodeSet2::new",
    "ScancodeSet2::advance_state",
    "Ps2Decoder::new",
    "Ps2Decoder::add_bit",
    "Ps2Decoder::add_word",
    "Ps2Decoder::clear",
    "EventDecoder::new",
    "EventDecoder::process_keyevent",
    "EventDecoder::set_ctrl_handling",
    "EventDecoder::get_ctrl_handling",
    "EventDecoder::change_layout",
    "Keyboard::new",
    "Keyboard::add_bit",
    "Keyboard::add_word",
    "Keyboard::add_byte",
    "Keyboard::process_keyevent",
    "Keyboard::clear",
    "Keyboard::set_ctrl_handling",
    "Keyboard::get_ctrl_handling",
    "Keyboard::get_modifiers",
    "KeyEvent::new",
    "KeyboardLayout::map_keycode",
    "Modifiers::is_shifted/is_ctrl/is_alt/is_altgr/is_caps",
    "Default::default (Ps2Decoder, ScancodeSet1, ScancodeSet2, Modifiers)",
    "AnyLayout (by value)::map_keycode",
    "&AnyLayout::map_keycode",
];

struct Tally {
    calls: BTreeMap<&'static str, u64>,
    viol: Vec<(String, String, J)>,
    panics: u64,
    distinct: BTreeSet<(u8, u64)>,
}
impl Tally {
    fn new() -> Tally {
        Tally {
            calls: BTreeMap::new(),
            viol: Vec::new(),
            panics: 0,
            distinct: BTreeSet::new(),
        }
    }
    fn add(&mut self, op: &'static str, n: u64) {
        *self.calls.entry(op).or_insert(0) += n;
    }
    fn panic(&mut self, op: &str, input: String, msg: &str, replay: J) {
        self.panics += 1;
        if self.viol.len() < 2000 {
            self.viol.push((
                format!("C08|{}|{}|{}", op, input, panic_sig(msg)),
                format!("{} panicked on {}: {}", op, input, msg),
                replay,
            ));
        }
    }
    fn merge(&mut self, o: Tally) {
        for (k, v) in o.calls {
            *self.calls.entry(k).or_insert(0) += v;
        }
        self.viol.extend(o.viol);
        self.panics += o.panics;
        self.distinct.extend(o.distinct);
    }
}

fn scan_states<D: Dec>(t: &mut Tally, new_name: &'static str, adv_name: &'static str) {
    // every reachable state (BFS through the hook's Clone/Debug) × 256 bytes
    let mut seen: BTreeMap<String, (D, Vec<u8>)> = BTreeMap::new();
    let mut q: VecDeque<String> = VecDeque::new();
    let d0 = D::fresh();
    t.add(new_name, 1);
    seen.insert(format!("{:?}", d0), (d0, vec![]));
    q.push_back(seen.keys().next().unwrap().clone());
    while let Some(name) = q.pop_front() {
        let (d, path) = seen[&name].clone();
        for b in 0..=255u8 {
            let mut dd = d.clone();
            t.add(adv_name, 1);
            t.distinct.insert((D::SET, (seen.len() as u64) << 8 | b as u64));
            match guarded(|| dd.advance_state(b)) {
                Ok(_) => {
                    let nn = format!("{:?}", dd);
                    if !seen.contains_key(&nn) && seen.len() < 4096 {
                        let mut p2 = path.clone();
                        p2.push(b);
                        seen.insert(nn.clone(), (dd, p2));
                        q.push_back(nn);
                    }
                }
                Err(p) => {
                    let mut h = path.clone();
                    h.push(b);
                    t.panic(
                        adv_name,
                        format!("state={}|byte=0x{:02X}", name, b),
                        &p,
                        J::obj().with("kind", J::s("bytes")).with("set", J::u(D::SET as u64)).with("via", J::s("advance_state")).with("bytes", J::Arr(h.iter().map(|x| J::u(*x as u64)).collect())).with("expected_last", J::s("no panic")).with("observed_last", J::s("PANIC")),
                    );
                }
            }
        }
    }
}

/// thorough: more than 2^32 operations on ONE object of each stage (a 32-bit counter that is incremented with `+= 1`
/// panics here in a build with overflow checks); one thread per stage, started first and joined last
fn long_soaks() -> Vec<std::thread::JoinHandle<(&'static str, u64, Result<(), String>)>> {
    const N: u64 = (1 << 32) + 4096;
    fn typing<D: Dec>() -> Vec<u8> {
        let r = ref_for(D::SET);
        let ty = Typist::new(D::SET, &r);
        let mut rng = Rng::fork(7, D::SET as u64);
        ty.typing(&mut rng, 4000)
    }
    fn bytes<D: Dec>(name: &'static str) -> (&'static str, u64, Result<(), String>) {
        let per = typing::<D>();
        let r = guarded(|| {
            let mut d = D::fresh();
            let mut n = 0u64;
            while n < N {
                for b in per.iter() {
                    let _ = std::hint::black_box(d.advance_state(*b));
                }
                n += per.len() as u64;
            }
        });
        (name, N, r)
    }
    vec![
        std::thread::spawn(|| bytes::<ScancodeSet1>("ScancodeSet1::advance_state")),
        std::thread::spawn(|| bytes::<ScancodeSet2>("ScancodeSet2::advance_state")),
        std::thread::spawn(|| {
            let r = guarded(|| {
                let mut d = crate::scan::fresh_ps2();
                let f = [crate::model::encode_frame(0x1C), crate::model::encode_frame(0xF0), 0x7FFu16, 0x000];
                let mut n = 0u64;
                while n < N {
                    let w = f[(n / 11 % 4) as usize];
                    for i in 0..11 {
                        let _ = std::hint::black_box(d.add_bit((w >> i) & 1 == 1));
                    }
                    n += 11;
                }
            });
            ("Ps2Decoder::add_bit", N, r)
        }),
        std::thread::spawn(|| {
            let r = guarded(|| {
                let mut dec = EventDecoder::new(crate::layouts::AdvLayout, HandleControl::MapLettersToUnicode);
                let keys = [KeyCode::A, KeyCode::LShift, KeyCode::B, KeyCode::CapsLock, KeyCode::Numpad7, KeyCode::RAltGr, KeyCode::F1];
                let mut n = 0u64;
                while n < N {
                    let k = keys[(n % 7) as usize];
                    let st = if n % 3 == 2 { KeyState::Up } else { KeyState::Down };
                    let _ = std::hint::black_box(dec.process_keyevent(KeyEvent::new(k, st)));
                    n += 1;
                }
            });
            ("EventDecoder::process_keyevent", N, r)
        }),
    ]
}

/// Counters in static memory behind any stage (hidden.rs): driven across their wrap-arounds; here only a panic counts.
fn static_counter_wraps(rep: &mut Report) {
    use pc_keyboard::{KeyboardLayout, ScancodeSet};
    let r1 = ref_for(1);
    let r2 = ref_for(2);
    let mut rng = Rng::fork(rep.seed, 0xC08_57A7);
    let b1 = Typist::new(1, &r1).typing(&mut rng, 600);
    let b2 = Typist::new(2, &r2).typing(&mut rng, 600);
    let mut d1 = ScancodeSet1::fresh();
    let mut d2 = ScancodeSet2::fresh();
    let mut ps2 = crate::scan::fresh_ps2();
    let mut kb = Keyboard::new(ScancodeSet2::fresh(), any_value(0), HandleControl::MapLettersToUnicode);
    let any = any_value(3);
    let mut n = 0usize;
    let mut step = || -> Option<(String, String)> {
        n += 1;
        let i = n / 8;
        let (op, r): (&'static str, Result<(), String>) = match n % 8 {
            0 => ("ScancodeSet1::advance_state", guarded(|| { let _ = d1.advance_state(b1[i % b1.len()]); })),
            1 => ("ScancodeSet2::advance_state", guarded(|| { let _ = d2.advance_state(b2[i % b2.len()]); })),
            2 => ("Ps2Decoder::add_bit", guarded(|| { let _ = ps2.add_bit(i % 3 == 0); })),
            3 => ("Ps2Decoder::add_word", guarded(|| { let _ = ps2.add_word(crate::model::encode_frame((i % 256) as u8) ^ if i % 5 == 0 { 0x200 } else { 0 }); })),
            4 => ("Keyboard::add_byte", guarded(|| { if let Ok(Some(ev)) = kb.add_byte(b2[i % b2.len()]) { let _ = kb.process_keyevent(ev); } })),
            5 => ("Keyboard::add_bit", guarded(|| { let _ = kb.add_bit(i % 2 == 0); })),
            6 => ("AnyLayout::map_keycode", guarded(|| { let _ = any.map_keycode(NAMED_KEYS[i % NAMED_KEYS.len()], &mods_from_bits((i % 512) as u16), MODES[i % 2]); })),
            _ => ("Keyboard::clear", guarded(|| { if i % 64 == 0 { kb.clear(); ps2.clear(); } })),
        };
        match r {
            Ok(()) => None,
            Err(p) => Some((format!("C08|{}|static-counter-wrap|{}", op, panic_sig(&p)), format!("{} panicked: {}", op, p))),
        }
    };
    crate::hidden::counter_wraps(rep, "every stage", &mut step, 4000);
}

pub fn run(rep: &mut Report) {
    static_counter_wraps(rep);
    let long = if rep.thorough() && !ctor_overridden() { long_soaks() } else { Vec::new() };
    let mut t = Tally::new();
    let uni = universe();

    // ---------------------------------------------------------------- scancode decoders
    scan_states::<ScancodeSet1>(&mut t, "ScancodeSet1::new", "ScancodeSet1::advance_state");
    scan_states::<ScancodeSet2>(&mut t, "ScancodeSet2::new", "ScancodeSet2::advance_state");

    // ---------------------------------------------------------------- frame decoder: every partial state × bit, clear everywhere, every u16 word
    for n in 0..=10usize {
        for v in 0..(1u32 << n) {
            for bit in [false, true] {
                let r = guarded(|| {
                    let mut d = crate::scan::fresh_ps2();
                    for i in 0..n {
                        let _ = d.add_bit((v >> i) & 1 == 1);
                    }
                    let _ = d.add_bit(bit);
                    d.clear();
                    let _ = d.add_bit(bit);
                });
                t.add("Ps2Decoder::new", 1);
                t.add("Ps2Decoder::add_bit", n as u64 + 2);
                t.add("Ps2Decoder::clear", 1);
                t.distinct.insert((10, ((n as u64) << 12 | (v as u64) << 1 | bit as u64)));
                if let Err(p) = r {
                    let bits: String = (0..n).map(|i| if (v >> i) & 1 == 1 { '1' } else { '0' }).collect();
                    t.panic("Ps2Decoder::add_bit/clear", format!("nbits={}", n), &p, J::obj().with("kind", J::s("bit-ops")).with("ops", J::strs(vec![format!("bits:{}{}", bits, bit as u8), "clear".into(), format!("bits:{}", bit as u8)])));
                }
            }
        }
    }
    // bits beyond a frame boundary, long runs (num_bits must never overflow)
    let r = guarded(|| {
        let mut d = crate::scan::fresh_ps2();
        for i in 0..100_000u32 {
            let _ = d.add_bit(i % 7 < 3);
        }
    });
    t.add("Ps2Decoder::add_bit", 100_000);
    if let Err(p) = r {
        t.panic("Ps2Decoder::add_bit", "long-run".into(), &p, J::Null);
    }
    for w in 0..=65535u16 {
        t.add("Ps2Decoder::add_word", 1);
        t.distinct.insert((11, w as u64));
        if let Err(p) = guarded(|| crate::scan::fresh_ps2().add_word(w)) {
            t.panic("Ps2Decoder::add_word", format!("word=0x{:04X}", w), &p, J::obj().with("kind", J::s("words")).with("target", J::s("ps2")).with("words", J::Arr(vec![J::u(w as u64)])));
        }
    }
    {
        let _ = guarded(|| {
            let a: Ps2Decoder = Default::default();
            let b: ScancodeSet1 = Default::default();
            let c: ScancodeSet2 = Default::default();
            let d: pc_keyboard::Modifiers = Default::default();
            (format!("{:?}", a), format!("{:?}", b), format!("{:?}", c), d.is_caps())
        })
        .map_err(|p| t.panic("Default::default", "-".into(), &p, J::Null));
        t.add("Default::default (Ps2Decoder, ScancodeSet1, ScancodeSet2, Modifiers)", 4);
    }

    // ---------------------------------------------------------------- soak: the same input repeated far beyond any u8/u16 counter
    // (a stuck data line, a key held for minutes, a driver calling clear() on every timeout …)
    const SOAK: u32 = 70_000;
    {
        let words: [u16; 8] = [0x000, 0x7FF, crate::model::encode_frame(0x00), crate::model::encode_frame(0xFF), crate::model::encode_frame(0x1C) ^ 0x200, 0x001, 0x400, crate::model::encode_frame(0xAA)];
        for w in words {
            let r = guarded(|| {
                let mut d = crate::scan::fresh_ps2();
                let mut kb = Keyboard::new(ScancodeSet2::new(), dyn_layout(0, 0), HandleControl::Ignore);
                for _ in 0..SOAK {
                    for i in 0..11 {
                        let _ = d.add_bit((w >> i) & 1 == 1);
                        let _ = kb.add_bit((w >> i) & 1 == 1);
                    }
                    let _ = d.add_word(w);
                    let _ = kb.add_word(w);
                }
                for _ in 0..SOAK {
                    d.clear();
                    kb.clear();
                    let _ = d.add_bit(true);
                }
            });
            t.add("Ps2Decoder::add_bit", SOAK as u64 * 12);
            t.add("Keyboard::add_bit", SOAK as u64 * 11);
            t.add("Ps2Decoder::add_word", SOAK as u64);
            t.add("Keyboard::add_word", SOAK as u64);
            t.add("Ps2Decoder::clear", SOAK as u64);
            t.add("Keyboard::clear", SOAK as u64);
            if let Err(p) = r {
                t.panic("Ps2Decoder/Keyboard (soak)", format!("frame=0x{:03X} repeated {} times", w, SOAK), &p, J::obj().with("kind", J::s("soak")).with("word", J::u(w as u64)));
            }
        }
        fn soak_bytes<D: Dec>(t: &mut Tally, name: &'static str) {
            for b in 0..=255u8 {
                let r = guarded(|| {
                    let mut d = D::fresh();
                    let mut kb: Keyboard<DynLayout, D> = Keyboard::new(D::fresh(), dyn_layout(0, 0), HandleControl::Ignore);
                    for _ in 0..SOAK {
                        let _ = d.advance_state(b);
                        if let Ok(Some(ev)) = kb.add_byte(b) {
                            let _ = kb.process_keyevent(ev);
                        }
                    }
                });
                t.add(name, SOAK as u64);
                t.add("Keyboard::add_byte", SOAK as u64);
                if let Err(p) = r {
                    t.panic(name, format!("byte=0x{:02X} repeated {} times", b, SOAK), &p, J::obj().with("kind", J::s("soak")).with("set", J::u(D::SET as u64)).with("byte", J::u(b as u64)));
                }
            }
        }
        // a key held down: every make sequence (1–3 bytes) repeated 70 000 times on one decoder and through a Keyboard
        fn soak_sequences<D: Dec>(t: &mut Tally, name: &'static str) {
            let r = ref_for(D::SET);
            let ty = Typist::new(D::SET, &r);
            for m in ty.make.iter().filter(|m| m.len() > 1) {
                let res = guarded(|| {
                    let mut d = D::fresh();
                    let mut kb: Keyboard<DynLayout, D> = Keyboard::new(D::fresh(), dyn_layout(0, 0), HandleControl::MapLettersToUnicode);
                    for _ in 0..SOAK {
                        for b in m.iter() {
                            let _ = d.advance_state(*b);
                            if let Ok(Some(ev)) = kb.add_byte(*b) {
                                let _ = kb.process_keyevent(ev);
                            }
                        }
                    }
                });
                t.add(name, SOAK as u64 * m.len() as u64);
                t.add("Keyboard::add_byte", SOAK as u64 * m.len() as u64);
                if let Err(p) = res {
                    t.panic(name, format!("make sequence [{}] repeated {} times", hex_bytes(m), SOAK), &p, J::obj().with("kind", J::s("soak")).with("set", J::u(D::SET as u64)).with("make_hex", J::s(hex_bytes(m))));
                }
            }
        }
        soak_sequences::<ScancodeSet1>(&mut t, "ScancodeSet1::advance_state");
        soak_sequences::<ScancodeSet2>(&mut t, "ScancodeSet2::advance_state");
        soak_bytes::<ScancodeSet1>(&mut t, "ScancodeSet1::advance_state");
        soak_bytes::<ScancodeSet2>(&mut t, "ScancodeSet2::advance_state");
        let uni2 = uni.clone();
        let threads = n_threads();
        let shards = par_map(threads, move |ti| {
            let mut t = Tally::new();
            for (ki, k) in uni2.iter().enumerate() {
                if ki % threads != ti {
                    continue;
                }
                for s in STATES {
                    let r = guarded(|| {
                        let mut dec = EventDecoder::new(dyn_layout(ki % 10, 0), HandleControl::MapLettersToUnicode);
                        for i in 0..SOAK {
                            let _ = dec.process_keyevent(KeyEvent::new(*k, s));
                            if i % 1024 == 0 {
                                dec.set_ctrl_handling(if i % 2048 == 0 { HandleControl::Ignore } else { HandleControl::MapLettersToUnicode });
                            }
                        }
                    });
                    t.add("EventDecoder::process_keyevent", SOAK as u64);
                    if let Err(p) = r {
                        t.panic("EventDecoder::process_keyevent", format!("event={}({:?}) repeated {} times", state_str(s), k, SOAK), &p, J::Null);
                    }
                }
            }
            t
        });
        for sh in shards {
            t.merge(sh);
        }
    }

    // ---------------------------------------------------------------- Keyboard: every u16 word in every scancode state, both sets
    fn kb_words<D: Dec>(t: &mut Tally) {
        let prefixes: Vec<Vec<u8>> = if D::SET == 2 {
            vec![vec![], vec![0xE0], vec![0xE1], vec![0xF0], vec![0xE0, 0xF0], vec![0xE1, 0xF0]]
        } else {
            vec![vec![], vec![0xE0], vec![0xE1]]
        };
        for p in &prefixes {
            let r = guarded(|| {
                let mut bad = Vec::new();
                for w in 0..=65535u16 {
                    let one = guarded(|| {
                        let mut kb: Keyboard<DynLayout, D> = Keyboard::new(D::fresh(), dyn_layout(0, 0), HandleControl::Ignore);
                        for b in p {
                            let _ = kb.add_byte(*b);
                        }
                        let _ = kb.add_word(w);
                        let _ = kb.get_modifiers().is_caps();
                        let _ = kb.get_ctrl_handling();
                    });
                    if let Err(m) = one {
                        bad.push((w, m));
                    }
                }
                bad
            });
            t.add("Keyboard::new", 65536);
            t.add("Keyboard::add_word", 65536);
            t.add("Keyboard::add_byte", 65536 * p.len() as u64);
            t.add("Keyboard::get_modifiers", 65536);
            t.add("Keyboard::get_ctrl_handling", 65536);
            if let Ok(bad) = r {
                for (w, m) in bad {
                    t.panic("Keyboard::add_word", format!("{}|prefix=[{}]|word=0x{:04X}", set_name(D::SET), hex_bytes(p), w), &m, J::Null);
                }
            }
        }
    }
    kb_words::<ScancodeSet2>(&mut t);
    kb_words::<ScancodeSet1>(&mut t);

    // ---------------------------------------------------------------- event decoder: every KeyEvent in every decoder state (by construction through presses)
    {
        let mod_keys = MOD_KEYS;
        // 512 modifier states × 2 modes reached by pressing the keys whose flag must be set (NumLock starts on)
        let threads = n_threads();
        let uni2 = uni.clone();
        let shards = par_map(threads, move |ti| {
            let mut t = Tally::new();
            let mut st = ti as u16;
            while st < 1024 {
                let bits = st & 511;
                let mode = MODES[(st >> 9) as usize];
                for li in [st as usize % 10] {
                    for k in uni2.iter() {
                        for s in STATES {
                            let r = guarded(|| {
                                let mut dec = EventDecoder::new(dyn_layout(li, (st as usize / 10) % 3), HandleControl::Ignore);
                                // order: RControl2 last so that NumLock can still be toggled
                                for (i, mk) in mod_keys.iter().enumerate() {
                                    let flag = [B_LSHIFT, B_RSHIFT, B_LCTRL, B_RCTRL, B_LALT, B_RALT, B_RCTRL2, B_CAPSLOCK, B_NUMLOCK][i];
                                    let want_on = bits & flag != 0;
                                    let is_on_initially = flag == B_NUMLOCK;
                                    if want_on != is_on_initially && *mk != KeyCode::RControl2 {
                                        let _ = dec.process_keyevent(KeyEvent::new(*mk, KeyState::Down));
                                    }
                                }
                                if bits & B_RCTRL2 != 0 {
                                    let _ = dec.process_keyevent(KeyEvent::new(KeyCode::RControl2, KeyState::Down));
                                }
                                dec.set_ctrl_handling(mode);
                                let _ = dec.get_ctrl_handling();
                                let _ = dec.process_keyevent(KeyEvent::new(*k, s));
                                dec.change_layout(dyn_layout((li + 1) % 10, 1));
                                let _ = dec.process_keyevent(KeyEvent::new(*k, s));
                            });
                            t.add("EventDecoder::new", 1);
                            t.add("EventDecoder::process_keyevent", 2 + bits.count_ones() as u64);
                            t.add("EventDecoder::set_ctrl_handling", 1);
                            t.add("EventDecoder::get_ctrl_handling", 1);
                            t.add("EventDecoder::change_layout", 1);
                            t.add("KeyEvent::new", 1);
                            t.distinct.insert((12, (st as u64) << 16 | (kidx(*k) as u64) << 2 | s as u64));
                            if let Err(p) = r {
                                t.panic(
                                    "EventDecoder::process_keyevent",
                                    format!("state={}|mode={}|event={}({:?})", mods_str(bits), mode_str(mode), state_str(s), k),
                                    &p,
                                    J::Null,
                                );
                            }
                        }
                    }
                }
                st += threads as u16;
            }
            t
        });
        for s in shards {
            t.merge(s);
        }
    }

    // ---------------------------------------------------------------- layouts: the full cube (30 objects × keys × 512 × 2)
    let cube = Cube::build();
    t.add("KeyboardLayout::map_keycode", cube.calls / 3);
    t.add("AnyLayout (by value)::map_keycode", cube.calls / 3);
    t.add("&AnyLayout::map_keycode", cube.calls / 3);
    for (li, form, ki, mode, mods, msg) in cube.panics.iter() {
        t.panic(
            "map_keycode",
            format!("{}|{}|key={:?}", layout_name(*li), FORM_NAMES[*form], cube.keys[*ki]),
            msg,
            J::obj()
                .with("kind", J::s("layout"))
                .with("layout", J::s(layout_name(*li)))
                .with("form", J::s(FORM_NAMES[*form]))
                .with("key", J::s(kname(cube.keys[*ki])))
                .with("mods", J::u(*mods as u64))
                .with("mode", J::s(mode_str(MODES[*mode])))
                .with("expected_last", J::s("a value"))
                .with("observed_last", J::s("PANIC")),
        );
    }
    for li in 0..cube.n_layouts as u64 {
        for ki in 0..cube.keys.len() as u64 {
            t.distinct.insert((13, li << 16 | ki));
        }
    }
    for m in 0..512u16 {
        let md = mods_from_bits(m);
        if let Err(p) = guarded(|| (md.is_shifted(), md.is_ctrl(), md.is_alt(), md.is_altgr(), md.is_caps())) {
            t.panic("Modifiers predicates", mods_str(m), &p, J::Null);
        }
        t.add("Modifiers::is_shifted/is_ctrl/is_alt/is_altgr/is_caps", 5);
    }

    // ---------------------------------------------------------------- hostile mixtures of every Keyboard entry point
    let threads = n_threads();
    let total: u64 = if rep.thorough() { 400_000_000 } else { 4_000_000 };
    let hist_len = 2_000usize;
    let n_hist = total / hist_len as u64;
    let seed = rep.seed;
    let shards = par_map(threads, move |ti| {
        let mut t = Tally::new();
        let r1 = ref_for(1);
        let r2 = ref_for(2);
        let ty1 = Typist::new(1, &r1);
        let ty2 = Typist::new(2, &r2);
        let mut h = ti as u64;
        while h < n_hist {
            let mut rng = Rng::fork(seed, 0xC08_0000 + h);
            let set2 = h % 2 == 0;
            let ops = hostile_ops(&mut rng, if set2 { &ty2 } else { &ty1 }, hist_len);
            let li = (h % 10) as usize;
            let form = ((h / 10) % 3) as usize;
            fn drive<D: Dec>(ops: &[KOp], li: usize, form: usize) -> [u64; 8] {
                let mut c = [0u64; 8];
                let mut kb: Keyboard<DynLayout, D> = Keyboard::new(D::fresh(), dyn_layout(li, form), HandleControl::MapLettersToUnicode);
                for op in ops {
                    // events produced by the byte/bit/word paths are fed straight on, as a driver would
                    let ev = match op {
                        KOp::Bit(b) => {
                            c[0] += 1;
                            kb.add_bit(*b).ok().flatten()
                        }
                        KOp::Word(w) => {
                            c[1] += 1;
                            kb.add_word(*w | if c[1] % 5 == 0 { 0xF800 } else { 0 }).ok().flatten()
                        }
                        KOp::Byte(b) => {
                            c[2] += 1;
                            kb.add_byte(*b).ok().flatten()
                        }
                        KOp::Ev(k, s) => Some(KeyEvent::new(*k, *s)),
                        KOp::Clear => {
                            c[4] += 1;
                            kb.clear();
                            None
                        }
                        KOp::Mode(m) => {
                            c[5] += 1;
                            kb.set_ctrl_handling(*m);
                            None
                        }
                    };
                    if let Some(e) = ev {
                        c[3] += 1;
                        let _ = kb.process_keyevent(e);
                        c[6] += 1;
                        let _ = kb.get_modifiers().is_altgr();
                    }
                }
                c
            }
            let r = guarded(|| if set2 { drive::<ScancodeSet2>(&ops, li, form) } else { drive::<ScancodeSet1>(&ops, li, form) });
            match r {
                Ok(c) => {
                    t.add("Keyboard::add_bit", c[0]);
                    t.add("Keyboard::add_word", c[1]);
                    t.add("Keyboard::add_byte", c[2]);
                    t.add("Keyboard::process_keyevent", c[3]);
                    t.add("Keyboard::clear", c[4]);
                    t.add("Keyboard::set_ctrl_handling", c[5]);
                    t.add("Keyboard::get_modifiers", c[6]);
                    t.add("Keyboard::new", 1);
                }
                Err(p) => {
                    let all: Vec<String> = ops.iter().map(|o| o.show()).collect();
                    t.panic(
                        "Keyboard (hostile mixture)",
                        format!("{}|{}", if set2 { "set2" } else { "set1" }, LAYOUT_NAMES[li]),
                        &p,
                        J::obj().with("kind", J::s("kbd-drive")).with("set", J::u(if set2 { 2 } else { 1 })).with("layout", J::u(li as u64)).with("form", J::u(form as u64)).with("ops", J::strs(all)),
                    );
                }
            }
            h += threads as u64;
        }
        t
    });
    let mut hostile_ops_n = 0u64;
    for s in shards {
        hostile_ops_n += s.calls.iter().filter(|(k, _)| k.starts_with("Keyboard::add") || **k == "Keyboard::clear").map(|(_, v)| *v).sum::<u64>();
        t.merge(s);
    }
    rep.count("hostile_mixture_wire_operations", hostile_ops_n);

    // the runs of key codes that the tree's source spells out, typed in every way mon_through::magic_key_histories builds
    for h in crate::mon_through::magic_key_histories() {
        let r = guarded(|| {
            let mut kb = Keyboard::new(ScancodeSet2::fresh(), dyn_layout(0, 0), HandleControl::MapLettersToUnicode);
            for op in h.iter() {
                match op {
                    crate::mon_through::HOp::Ev(k, s) => {
                        let _ = kb.process_keyevent(KeyEvent::new(*k, *s));
                    }
                    crate::mon_through::HOp::Mode(m) => kb.set_ctrl_handling(MODES[*m]),
                    crate::mon_through::HOp::Extra(x) => extra_kb_op!(kb, *x),
                }
            }
        });
        t.add("Keyboard::process_keyevent", h.len() as u64);
        if let Err(p) = r {
            let shown: Vec<String> = h.iter().map(|o| o.show()).collect();
            t.panic("Keyboard::process_keyevent", format!("history [{}]", shown.join(", ")), &p, J::obj().with("kind", J::s("events")).with("layout", J::s(layout_name(0))).with("initial_mode", J::s("Map")).with("ops", J::strs(shown)).with("expected_last", J::s("no panic")).with("observed_last", J::s("PANIC")));
        }
    }
    for h in long {
        if let Ok((name, n, r)) = h.join() {
            t.add(name, n);
            rep.count(&format!("operations_on_one_object_in_the_2^32_soak_of_{}", name), n);
            if let Err(p) = r {
                t.panic(name, "more than 2^32 operations on one object".into(), &p, J::obj().with("kind", J::s("soak-2^32")).with("operation", J::s(name)));
            }
        }
    }
    // ---------------------------------------------------------------- verdict
    let mut total_calls = 0u64;
    let mut calls_json = J::obj();
    for op in PUBLIC_OPS.iter() {
        let n = *t.calls.get(op).unwrap_or(&0);
        total_calls += n;
        calls_json.set(*op, J::u(n));
        rep.require(&format!("calls of {}", op), n, 1);
    }
    rep.set_extra("calls_per_public_operation", calls_json);
    rep.evaluations = total_calls;
    rep.panics = t.panics;
    rep.distinct_nontrivial = t.distinct.len() as u64;
    for (s, w, r) in t.viol {
        rep.violate(s, w, r);
    }
    rep.exhaustive = Some(true);
    rep.rule = "every (reachable state × input) pair of every stage – scancode decoders (BFS × 256 bytes), frame decoder (2047 partial states × bit, clear everywhere, all 65 536 u16 words incl. those with bits above bit 10), event decoder (512 modifier states × 2 modes × every key × 3 key states, with change_layout), all 30 layout objects × keys × 512 × 2, the five predicates – \
                plus seeded hostile mixtures of every Keyboard entry point, each call inside catch_unwind in a build with overflow checks and debug assertions on; distinct_nontrivial = distinct (component, state, input) cases driven"
        .into();
    rep.assumptions.push("panic = unwind caught by catch_unwind (panic=unwind build); arithmetic overflow and out-of-range shifts panic because overflow-checks and debug-assertions are on in the harness profile, which applies to pc-keyboard too".into());
    rep.sample_str("Ps2Decoder::add_word(0xFFFF) (bits above bit 10 set) → ".to_string() + &format!("{:?}", crate::scan::fresh_ps2().add_word(0xFFFF)));
    rep.sample_str(format!("ScancodeSet1 byte 0xF0 in state Start → {:?}", {
        use pc_keyboard::ScancodeSet;
        ScancodeSet1::new().advance_state(0xF0)
    }));
    rep.sample_str(format!("Keyboard<_, Set2>::add_word(0xFC02) → {:?}", Keyboard::new(ScancodeSet2::new(), dyn_layout(0, 0), HandleControl::Ignore).add_word(0xFC02)));
}
