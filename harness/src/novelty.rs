//! Novelty-guided exploration of a stateful object whose only complete description is its `Debug` rendering.
//!
//! Plain breadth-first search over renderings stops being useful as soon as the object carries one more field with
//! many values (a sequence recogniser, a tap counter, an accumulator): the product with the 1024 modifier/mode states
//! no longer fits any budget.  Here a rendering is split into its leaves (`path = value`), and a newly seen state is
//! *expanded* (every operation applied from it) only if it shows a pair of leaf values that no earlier state showed.
//! Every child – expanded later or not – is judged by the subject's own oracle, so the search only widens the set of
//! (history, operation) cases the property's oracle is evaluated on; it never adds a demand of its own.

use crate::report::guarded;
use crate::scan::par_map;
use std::collections::hash_map::DefaultHasher;
use std::collections::HashSet;
use std::hash::{Hash, Hasher};
use std::sync::Arc;

/// What is explored: built fresh, driven by operations, rendered, and judged by its own oracle in `apply`.
pub trait Subject: Sized {
    type Op: Clone + Send + Sync + 'static;
    fn fresh() -> Self;
    /// apply the operation; Some((signature, description)) if the observation contradicts the property
    fn apply(&mut self, op: &Self::Op) -> Option<(String, String)>;
    fn render(&self) -> String;
}

/// Split a derived-`Debug` rendering into (path, value) leaves.  Never fails: what it cannot parse becomes one leaf.
pub fn flatten(s: &str) -> Vec<(String, String)> {
    struct P<'a> {
        b: &'a [u8],
        i: usize,
        out: Vec<(String, String)>,
    }
    impl<'a> P<'a> {
        fn ws(&mut self) {
            while self.i < self.b.len() && (self.b[self.i] == b' ' || self.b[self.i] == b'\n') {
                self.i += 1;
            }
        }
        fn peek(&self) -> u8 {
            if self.i < self.b.len() {
                self.b[self.i]
            } else {
                0
            }
        }
        fn atom(&mut self) -> String {
            let st = self.i;
            let q = self.peek();
            if q == b'"' || q == b'\'' {
                self.i += 1;
                while self.i < self.b.len() && self.b[self.i] != q {
                    if self.b[self.i] == b'\\' {
                        self.i += 1;
                    }
                    self.i += 1;
                }
                self.i = (self.i + 1).min(self.b.len());
            } else {
                while self.i < self.b.len() && !b" ,{}()[]:\n".contains(&self.b[self.i]) {
                    self.i += 1;
                }
            }
            String::from_utf8_lossy(&self.b[st..self.i]).into_owned()
        }
        fn seq(&mut self, path: &str, close: u8) {
            let mut n = 0usize;
            loop {
                self.ws();
                if self.peek() == close || self.peek() == 0 {
                    self.i += 1;
                    return;
                }
                self.value(&format!("{}.{}", path, n.min(8)));
                n += 1;
                self.ws();
                if self.peek() == b',' {
                    self.i += 1;
                }
            }
        }
        fn value(&mut self, path: &str) {
            if self.out.len() > 4096 {
                self.i = self.b.len();
                return;
            }
            self.ws();
            match self.peek() {
                b'[' => {
                    self.i += 1;
                    self.seq(path, b']');
                    return;
                }
                b'(' => {
                    self.i += 1;
                    self.seq(path, b')');
                    return;
                }
                _ => {}
            }
            let before = self.i;
            let a = self.atom();
            self.ws();
            match self.peek() {
                b'{' => {
                    self.i += 1;
                    self.out.push((format!("{}#", path), a));
                    loop {
                        self.ws();
                        if self.peek() == b'}' || self.peek() == 0 {
                            self.i += 1;
                            return;
                        }
                        let name = self.atom();
                        self.ws();
                        if self.peek() == b':' {
                            self.i += 1;
                            self.value(&format!("{}.{}", path, name));
                        } else if self.peek() == b'.' || name == ".." {
                            // `..` of finish_non_exhaustive
                        } else if name.is_empty() {
                            self.i += 1;
                        }
                        self.ws();
                        if self.peek() == b',' {
                            self.i += 1;
                        }
                    }
                }
                b'(' => {
                    self.i += 1;
                    self.out.push((format!("{}#", path), a.clone()));
                    self.seq(&format!("{}.{}", path, a), b')');
                }
                _ => {
                    if self.i == before {
                        // no progress: swallow one byte so that the walk always terminates
                        self.i += 1;
                    }
                    self.out.push((path.to_string(), a));
                }
            }
        }
    }
    let mut p = P { b: s.as_bytes(), i: 0, out: Vec::new() };
    p.value("");
    if p.i < p.b.len() {
        let rest = String::from_utf8_lossy(&p.b[p.i..]).into_owned();
        p.out.push(("<rest>".into(), rest));
    }
    p.out
}

fn h64<T: Hash>(t: &T) -> u64 {
    let mut h = DefaultHasher::new();
    t.hash(&mut h);
    h.finish()
}

#[derive(Default, Debug)]
pub struct Explored {
    pub states_seen: u64,
    pub states_expanded: u64,
    pub children_judged: u64,
    pub max_depth: usize,
    pub leaves: usize,
    pub leaf_values: usize,
    pub leaf_value_pairs: u64,
    pub children_aborted_by_a_panic: u64,
    pub budget_exhausted: bool,
    /// (signature, description, path that ends in the offending operation)
    pub violations: Vec<(String, String, Vec<String>)>,
    pub sample_deep_state: String,
}

/// Level-synchronous search.  `budget` = number of states expanded at most.  Deterministic for a given tree.
pub fn explore<S: Subject>(ops: Vec<S::Op>, show: fn(&S::Op) -> String, budget: usize, threads: usize) -> Explored {
    let mut ex = Explored::default();
    let ops = Arc::new(ops);
    let mut seen: HashSet<u64> = HashSet::new();
    let mut pairs: HashSet<u64> = HashSet::new();
    let mut values: HashSet<u64> = HashSet::new();
    let mut frontier: Vec<Vec<u32>> = vec![vec![]];
    let root = match guarded(|| S::fresh().render()) {
        Ok(r) => r,
        Err(_) => return ex,
    };
    seen.insert(h64(&root));
    let lv = flatten(&root);
    ex.leaves = lv.len();
    let ids: Vec<u64> = lv.iter().map(h64).collect();
    for (i, a) in ids.iter().enumerate() {
        values.insert(*a);
        for b in &ids[i + 1..] {
            pairs.insert(a ^ b.rotate_left(17));
        }
    }
    let mut depth = 0usize;
    let mut viol_sigs: HashSet<String> = HashSet::new();
    while !frontier.is_empty() {
        depth += 1;
        // bound the level by what is left of the budget
        let left = budget.saturating_sub(ex.states_expanded as usize);
        if left == 0 {
            ex.budget_exhausted = true;
            break;
        }
        if frontier.len() > left {
            frontier.truncate(left);
            ex.budget_exhausted = true;
        }
        let fr = Arc::new(std::mem::take(&mut frontier));
        let seen_snapshot = Arc::new(seen.clone());
        let (fr2, ops2) = (fr.clone(), ops.clone());
        let shards = par_map(threads, move |t| {
            let mut out: Vec<(usize, u32, u64, String)> = Vec::new();
            let mut viol: Vec<(usize, u32, String, String)> = Vec::new();
            let (mut judged, mut aborted) = (0u64, 0u64);
            let mut si = t;
            while si < fr2.len() {
                let path = &fr2[si];
                for (oi, op) in ops2.iter().enumerate() {
                    let r = guarded(|| {
                        let mut s = S::fresh();
                        for p in path {
                            let _ = s.apply(&ops2[*p as usize]);
                        }
                        let v = s.apply(op);
                        (v, s.render())
                    });
                    match r {
                        Ok((v, r)) => {
                            judged += 1;
                            if let Some((sig, what)) = v {
                                viol.push((si, oi as u32, sig, what));
                            }
                            let h = h64(&r);
                            if !seen_snapshot.contains(&h) {
                                out.push((si, oi as u32, h, r));
                            }
                        }
                        Err(_) => aborted += 1,
                    }
                }
                si += threads;
            }
            (out, viol, judged, aborted)
        });
        ex.states_expanded += fr.len() as u64;
        let mut cands: Vec<(usize, u32, u64, String)> = Vec::new();
        for (out, viol, judged, aborted) in shards {
            ex.children_judged += judged;
            ex.children_aborted_by_a_panic += aborted;
            cands.extend(out);
            for (si, oi, sig, what) in viol {
                if viol_sigs.insert(sig.clone()) && ex.violations.len() < 200 {
                    let mut p: Vec<String> = fr[si].iter().map(|x| show(&ops[*x as usize])).collect();
                    p.push(show(&ops[oi as usize]));
                    ex.violations.push((sig, what, p));
                }
            }
        }
        cands.sort_by(|a, b| (a.0, a.1).cmp(&(b.0, b.1)));
        for (si, oi, h, r) in cands {
            if !seen.insert(h) {
                continue;
            }
            let lv = flatten(&r);
            let ids: Vec<u64> = lv.iter().map(h64).collect();
            let mut novel = false;
            for (i, a) in ids.iter().enumerate() {
                values.insert(*a);
                for b in &ids[i + 1..] {
                    if pairs.insert(a ^ b.rotate_left(17)) {
                        novel = true;
                    }
                }
            }
            if novel {
                let mut p = fr[si].clone();
                p.push(oi);
                if p.len() > ex.max_depth {
                    ex.max_depth = p.len();
                    ex.sample_deep_state = format!("[{}] ⇒ {}", p.iter().map(|x| show(&ops[*x as usize])).collect::<Vec<_>>().join(", "), r);
                }
                frontier.push(p);
            }
        }
        let _ = depth;
    }
    ex.states_seen = seen.len() as u64;
    ex.leaf_values = values.len();
    ex.leaf_value_pairs = pairs.len() as u64;
    ex
}
