//! Reference oracles loaded from refs/*.tsv (transcriptions of external standards; see
//! refs/gen_refs.py and DESIGN.md Appendix A).  Keys are resolved by *name* against the key
//! universe, so nothing here depends on the crate's decode tables.

use crate::keys::{key_by_name, kidx};
use crate::layouts::LAYOUT_NAMES;
use pc_keyboard::KeyCode;

const SET1_TSV: &str = include_str!("../refs/set1.tsv");
const SET2_TSV: &str = include_str!("../refs/set2.tsv");
const XLATE_TSV: &str = include_str!("../refs/i8042_xlate.tsv");
const LAYOUT_TSV: [&str; 10] = [
    include_str!("../refs/layouts/Us104Key.tsv"),
    include_str!("../refs/layouts/Uk105Key.tsv"),
    include_str!("../refs/layouts/De105Key.tsv"),
    include_str!("../refs/layouts/Azerty.tsv"),
    include_str!("../refs/layouts/No105Key.tsv"),
    include_str!("../refs/layouts/FiSe105Key.tsv"),
    include_str!("../refs/layouts/Jis109Key.tsv"),
    include_str!("../refs/layouts/Colemak.tsv"),
    include_str!("../refs/layouts/Dvorak104Key.tsv"),
    include_str!("../refs/layouts/DVP104Key.tsv"),
];

pub const CTX_NAMES: [&str; 3] = ["plain", "e0", "e1"];

#[derive(Clone, Copy, Debug, PartialEq, Eq)]
pub struct RefKey {
    pub key: KeyCode,
    pub oneshot: bool,
}

/// code → key per prefix context (0 plain, 1 E0, 2 E1)
pub struct ScanRef {
    pub table: [[Option<RefKey>; 256]; 3],
    pub entries: usize,
}

impl ScanRef {
    fn parse(src: &str) -> ScanRef {
        let mut table = [[None; 256]; 3];
        let mut entries = 0;
        for line in src.lines() {
            if line.starts_with('#') || line.trim().is_empty() {
                continue;
            }
            let f: Vec<&str> = line.split('\t').collect();
            let ctx = CTX_NAMES.iter().position(|c| *c == f[0]).expect("ctx");
            let code = u8::from_str_radix(f[1], 16).expect("code") as usize;
            let key = key_by_name(f[2]).unwrap_or_else(|| panic!("reference names unknown key {}", f[2]));
            table[ctx][code] = Some(RefKey {
                key,
                oneshot: f[3] == "oneshot",
            });
            entries += 1;
        }
        ScanRef { table, entries }
    }
    pub fn set1() -> ScanRef {
        ScanRef::parse(SET1_TSV)
    }
    pub fn set2() -> ScanRef {
        ScanRef::parse(SET2_TSV)
    }
    /// The property names the README conversion table as the authority.  If the tree adds a key
    /// the harness does not know by name *and* documents it in the README table at a code this
    /// reference leaves undefined, accept the README's assignment for that key (returns notes).
    pub fn extend_from_readme(&mut self, set: u8, uni: &[KeyCode]) -> Vec<String> {
        let path = std::env::var("VERIF_REPO").unwrap_or_else(|_| "/repo".into()) + "/README.md";
        let mut notes = Vec::new();
        let Ok(txt) = std::fs::read_to_string(&path) else { return notes };
        for line in txt.lines() {
            let f: Vec<&str> = line.split('|').map(|s| s.trim()).collect();
            if f.len() < 5 {
                continue;
            }
            let name = f[1];
            if key_by_name(name).is_some() {
                continue; // a key the reference already knows: the transcription decides
            }
            let Some(key) = uni.iter().copied().find(|k| format!("{:?}", k) == name) else { continue };
            let cell = if set == 1 { f[2] } else { f[3] };
            let Some(h) = cell.strip_prefix("0x") else { continue };
            let (ctx, code) = if h.len() == 2 {
                (0usize, u8::from_str_radix(h, 16).ok())
            } else if h.len() == 4 {
                (if h[..2].eq_ignore_ascii_case("E0") { 1 } else { 2 }, u8::from_str_radix(&h[2..], 16).ok())
            } else {
                continue;
            };
            let Some(code) = code else { continue };
            if self.table[ctx][code as usize].is_none() {
                self.table[ctx][code as usize] = Some(RefKey { key, oneshot: false });
                self.entries += 1;
                notes.push(format!("key {} is not in the transcribed reference; accepted at {} {:02X} on the authority of the README table", name, CTX_NAMES[ctx], code));
            }
        }
        notes
    }
    /// (ctx, code) of a key, if the set can express it
    pub fn code_of(&self, key: KeyCode) -> Option<(usize, u8)> {
        for ctx in 0..3 {
            for code in 0..256 {
                if let Some(r) = self.table[ctx][code] {
                    if r.key == key {
                        return Some((ctx, code as u8));
                    }
                }
            }
        }
        None
    }
}

/// Set 2 code → Set 1 code (only codes with a translation)
pub struct Xlate {
    pub map: [Option<u8>; 256],
}
impl Xlate {
    pub fn load() -> Xlate {
        let mut map = [None; 256];
        for line in XLATE_TSV.lines() {
            if line.starts_with('#') || line.trim().is_empty() {
                continue;
            }
            let f: Vec<&str> = line.split('\t').collect();
            let a = u8::from_str_radix(f[0], 16).unwrap();
            let b = u8::from_str_radix(f[1], 16).unwrap();
            map[a as usize] = Some(b);
        }
        Xlate { map }
    }
    pub fn preimages(&self, set1code: u8) -> Vec<u8> {
        (0..=255u8).filter(|c| self.map[*c as usize] == Some(set1code)).collect()
    }
}

#[derive(Clone, Copy, PartialEq, Eq, Debug)]
pub enum Level {
    Base = 0,
    Shift = 1,
    AltGr = 2,
}
pub const LEVEL_NAMES: [&str; 3] = ["base", "shift", "altgr"];

pub struct LayoutRef {
    /// [level][key index] → accepted characters (empty = unconstrained)
    pub cells: [Vec<Vec<char>>; 3],
    pub n_cells: usize,
}

impl LayoutRef {
    pub fn load(li: usize) -> LayoutRef {
        let mut cells: [Vec<Vec<char>>; 3] = [vec![Vec::new(); 256], vec![Vec::new(); 256], vec![Vec::new(); 256]];
        let mut n = 0;
        for line in LAYOUT_TSV[li].lines() {
            if line.starts_with('#') || line.trim().is_empty() {
                continue;
            }
            let f: Vec<&str> = line.split('\t').collect();
            let key = key_by_name(f[0]).unwrap_or_else(|| panic!("layout ref {} names unknown key {}", LAYOUT_NAMES[li], f[0]));
            let level = LEVEL_NAMES.iter().position(|l| *l == f[1]).expect("level");
            let chars: Vec<char> = f[2]
                .split(' ')
                .map(|t| char::from_u32(u32::from_str_radix(&t[2..], 16).unwrap()).unwrap())
                .collect();
            cells[level][kidx(key)] = chars;
            n += 1;
        }
        LayoutRef { cells, n_cells: n }
    }
    pub fn accepted(&self, level: Level, key: KeyCode) -> &[char] {
        &self.cells[level as usize][kidx(key)]
    }
}

// ------------------------------------------------------------------ small tables (DESIGN A.4)
use KeyCode::*;

pub const NUMPAD_DIGITS: [(KeyCode, char, Option<KeyCode>); 10] = [
    (Numpad0, '0', Some(Insert)),
    (Numpad1, '1', Some(End)),
    (Numpad2, '2', Some(ArrowDown)),
    (Numpad3, '3', Some(PageDown)),
    (Numpad4, '4', Some(ArrowLeft)),
    (Numpad5, '5', None),
    (Numpad6, '6', Some(ArrowRight)),
    (Numpad7, '7', Some(Home)),
    (Numpad8, '8', Some(ArrowUp)),
    (Numpad9, '9', Some(PageUp)),
];
pub const NUMPAD_OPS: [(KeyCode, char); 4] = [
    (NumpadDivide, '/'),
    (NumpadMultiply, '*'),
    (NumpadSubtract, '-'),
    (NumpadAdd, '+'),
];
pub const EDIT_KEYS: [(KeyCode, char); 6] = [
    (Escape, '\u{1b}'),
    (Backspace, '\u{8}'),
    (Tab, '\u{9}'),
    (Return, '\u{a}'),
    (Delete, '\u{7f}'),
    (Spacebar, ' '),
];
/// accepted decimal separators per layout (NumLock on)
pub fn decimal_seps(layout: &str) -> &'static [char] {
    match layout {
        "No105Key" | "FiSe105Key" => &[','],
        "De105Key" => &[',', '.'],
        _ => &['.'],
    }
}
/// the 52 keys that carry no character on any keyboard
pub const CHARLESS: [KeyCode; 52] = [
    F1, F2, F3, F4, F5, F6, F7, F8, F9, F10, F11, F12, PrintScreen, SysRq, ScrollLock, PauseBreak,
    Insert, Home, PageUp, End, PageDown, ArrowUp, ArrowLeft, ArrowDown, ArrowRight, NumpadLock,
    CapsLock, LShift, RShift, LControl, RControl, LAlt, RAltGr, LWin, RWin, Apps, RControl2, RAlt2,
    PrevTrack, NextTrack, Mute, Calculator, Play, Stop, VolumeDown, VolumeUp, WWWHome,
    PowerOnTestOk, TooManyKeys, Oem9, Oem10, Oem11,
];
pub fn numpad_alias(k: KeyCode) -> Option<KeyCode> {
    NUMPAD_DIGITS.iter().find(|(n, _, _)| *n == k).and_then(|(_, _, a)| *a)
}
pub fn is_numpad_numlock_key(k: KeyCode) -> bool {
    k == NumpadPeriod || NUMPAD_DIGITS.iter().any(|(n, _, _)| *n == k)
}
