//! The layout properties as a user of the public API experiences them: hostile key-event histories
//! (held keys re-pressed without release, modifier / lock toggles and set_ctrl_handling calls between
//! two presses of the same key …) are driven through a real `Keyboard`, and every decoded key is judged
//! by the *property's own* per-cell predicate, evaluated at the decoder's reported modifier state and
//! Ctrl mode.  A property is reported only when its predicate is contradicted by what was typed.

use crate::cube::Cube;
use crate::json::J;
use crate::keys::*;
use crate::layouts::*;
use crate::refs::numpad_alias;
use crate::report::*;
use crate::rng::Rng;
use pc_keyboard::{DecodedKey, HandleControl, KeyCode, KeyEvent, KeyState, Keyboard, KeyboardLayout, Modifiers, ScancodeSet2};

/// What a property accepts as the decoded key of one press.
pub enum Acc {
    /// the property says nothing about this cell
    Any,
    /// the decoded key must be one of these (cube encoding)
    OneOf(Vec<u32>),
    /// if the decoded key is a raw key it must be the pressed key or its NumLock-off alias
    RawSelfOrAlias,
}

pub const ENC_NONE: u32 = 0xFFFF_FFFE;

#[derive(Clone, Copy)]
pub enum HOp {
    Ev(KeyCode, KeyState),
    Mode(usize),
    /// a further switch of `Keyboard` that the tree offers (found by build.rs)
    Extra(usize),
}
impl HOp {
    pub fn show(&self) -> String {
        match self {
            HOp::Ev(k, s) => format!("{}({:?})", state_str(*s), k),
            HOp::Mode(m) => format!("set_ctrl_handling({})", mode_str(MODES[*m])),
            HOp::Extra(i) => extra_kb_op_names().get(*i).copied().unwrap_or("?").to_string(),
        }
    }
}

/// A history built to provoke anything that remembers earlier presses: a focus key is pressed again and
/// again (mostly without release) while modifiers, locks and the Ctrl mode change in between.
pub fn history(rng: &mut Rng, focus: &[KeyCode], all: &[KeyCode], len: usize) -> Vec<HOp> {
    let mut ops = Vec::with_capacity(len);
    let mut k = *rng.pick(focus);
    let nx = extra_kb_op_names().len();
    let magic = magic_key_sequences();
    while ops.len() < len {
        if !magic.is_empty() && rng.below(40) == 0 {
            // a run of keys that the tree's source spells out, typed as it stands, then the focus key
            for mk in rng.pick(&magic).iter() {
                ops.push(HOp::Ev(*mk, KeyState::Down));
                if rng.bit() {
                    ops.push(HOp::Ev(*mk, KeyState::Up));
                }
            }
            ops.push(HOp::Ev(k, KeyState::Down));
            continue;
        }
        if nx > 0 && rng.below(20) == 0 {
            ops.push(HOp::Extra(rng.below(nx as u64) as usize));
            continue;
        }
        match rng.below(100) {
            0..=44 => ops.push(HOp::Ev(k, KeyState::Down)),
            45..=52 => ops.push(HOp::Ev(k, KeyState::Up)),
            53..=77 => {
                let mk = *rng.pick(&MOD_KEYS);
                let st = if rng.below(5) < 3 { KeyState::Down } else { KeyState::Up };
                ops.push(HOp::Ev(mk, st));
            }
            78..=83 => ops.push(HOp::Mode(rng.below(2) as usize)),
            84..=91 => ops.push(HOp::Ev(*rng.pick(all), *rng.pick(&STATES))),
            92..=95 => ops.push(HOp::Ev(*rng.pick(focus), KeyState::Down)),
            _ => k = *rng.pick(focus),
        }
    }
    ops
}

/// One press judged by the property's predicate: None = accepted (or not constrained), Some(what was required).
#[allow(clippy::too_many_arguments)]
fn judge(cube: &Cube, acc: &dyn Fn(usize, usize, u16, usize) -> Acc, li: usize, k: KeyCode, ki: usize, m: u16, mode: usize, got: u32, judged: &mut u64) -> Option<String> {
    match acc(li, ki, m, mode) {
        Acc::Any => None,
        Acc::OneOf(v) => {
            *judged += 1;
            if v.contains(&got) {
                None
            } else {
                Some(v.iter().map(|e| cube.show(*e)).collect::<Vec<_>>().join("|"))
            }
        }
        Acc::RawSelfOrAlias => {
            *judged += 1;
            let own = 0x8000_0000 | kidx(k) as u32;
            let alias_ok = m & B_NUMLOCK == 0 && numpad_alias(k).map(|a| got == (0x8000_0000 | kidx(a) as u32)).unwrap_or(false);
            // no decoded key at all is C14's matter, not a raw key code of another key
            if got == ENC_NONE || !enc_is_raw(got) || got == own || alias_ok {
                None
            } else {
                Some(format!("Raw({:?}) or its NumLock-off alias", k))
            }
        }
    }
}

/// What one press of the focus key returned in a streamed "ABA" history, with the decoder's record before and after it.
pub struct BigObs {
    pub step: &'static str,
    pub pre: Modifiers,
    pub mods: u16,
    pub mode: HandleControl,
    pub got: Option<DecodedKey>,
}

/// The ABA history with `n` changes, streamed (n may be 2^32): key, n-1 events of `tog` (alternating Down/Up, or Down only
/// for a lock key), `last` Down, key, n calls of set_ctrl_handling, key, set_ctrl_handling(Ignore), key.
pub fn big_aba<L: KeyboardLayout>(layout: L, key: KeyCode, tog: KeyCode, alternate: bool, last: KeyCode, n: u64) -> Vec<BigObs> {
    let mut kb = Keyboard::new(ScancodeSet2::new(), layout, HandleControl::MapLettersToUnicode);
    let mut out = Vec::new();
    fn press<L: KeyboardLayout>(kb: &mut Keyboard<L, ScancodeSet2>, key: KeyCode, step: &'static str, out: &mut Vec<BigObs>) {
        // the key is held: four makes in a row (a fast path may engage only from the n-th repeat), each of them judged
        for _ in 0..4 {
            let pre = kb.get_modifiers().clone();
            let got = kb.process_keyevent(KeyEvent::new(key, KeyState::Down));
            out.push(BigObs { step, pre, mods: bits_from_mods(kb.get_modifiers()), mode: kb.get_ctrl_handling(), got });
        }
    }
    press(&mut kb, key, "first press", &mut out);
    for i in 0..n - 1 {
        let st = if alternate && i % 2 == 1 { KeyState::Up } else { KeyState::Down };
        std::hint::black_box(kb.process_keyevent(KeyEvent::new(tog, st)));
    }
    kb.process_keyevent(KeyEvent::new(last, KeyState::Down));
    press(&mut kb, key, "after n modifier events", &mut out);
    for i in 0..n {
        kb.set_ctrl_handling(MODES[(i % 2) as usize]);
        std::hint::black_box(&mut kb);
    }
    press(&mut kb, key, "after n set_ctrl_handling calls", &mut out);
    kb.set_ctrl_handling(MODES[1]);
    press(&mut kb, key, "after one more mode change", &mut out);
    out
}

/// The ABA shape for a numpad key: NumLock switched off, the key (its navigation alias), n - 1 CapsLock presses and one
/// NumLock press (exactly n changes, NumLock on again), the key again; then the same back to NumLock off.
pub fn numlock_aba<L: KeyboardLayout>(layout: L, key: KeyCode, n: u64) -> Vec<BigObs> {
    let mut kb = Keyboard::new(ScancodeSet2::new(), layout, HandleControl::MapLettersToUnicode);
    let mut out = Vec::new();
    let mut press = |kb: &mut Keyboard<L, ScancodeSet2>, step: &'static str| {
        let pre = kb.get_modifiers().clone();
        let got = kb.process_keyevent(KeyEvent::new(key, KeyState::Down));
        let _ = kb.process_keyevent(KeyEvent::new(key, KeyState::Up));
        out.push(BigObs { step, pre, mods: bits_from_mods(kb.get_modifiers()), mode: kb.get_ctrl_handling(), got });
    };
    let _ = kb.process_keyevent(KeyEvent::new(KeyCode::NumpadLock, KeyState::Down));
    press(&mut kb, "NumLock off");
    for _ in 0..n.saturating_sub(1) {
        std::hint::black_box(kb.process_keyevent(KeyEvent::new(KeyCode::CapsLock, KeyState::Down)));
    }
    let _ = kb.process_keyevent(KeyEvent::new(KeyCode::NumpadLock, KeyState::Down));
    press(&mut kb, "NumLock on again after n changes");
    for _ in 0..n.saturating_sub(1) {
        std::hint::black_box(kb.process_keyevent(KeyEvent::new(KeyCode::CapsLock, KeyState::Down)));
    }
    let _ = kb.process_keyevent(KeyEvent::new(KeyCode::NumpadLock, KeyState::Down));
    press(&mut kb, "NumLock off again after n changes");
    out
}

pub const BIG_COMBOS: [(KeyCode, bool, KeyCode); 4] = [
    (KeyCode::RShift, true, KeyCode::LShift),
    (KeyCode::RControl, true, KeyCode::LControl),
    (KeyCode::NumpadLock, false, KeyCode::LShift),
    (KeyCode::CapsLock, false, KeyCode::RAltGr),
];

/// Bring a Keyboard's modifier record to `target` using modifier / lock key events only.  False if the record does not
/// get there (a defect of the record itself is C04's matter; the caller then skips the case).
pub fn goto_mods<L: KeyboardLayout>(kb: &mut Keyboard<L, ScancodeSet2>, target: u16) -> bool {
    let ev = |kb: &mut Keyboard<L, ScancodeSet2>, k: KeyCode, st: KeyState| {
        let _ = kb.process_keyevent(KeyEvent::new(k, st));
    };
    let cur = bits_from_mods(kb.get_modifiers());
    if (cur ^ target) & B_NUMLOCK != 0 {
        if cur & B_RCTRL2 != 0 {
            ev(kb, KeyCode::RControl2, KeyState::Up);
        }
        ev(kb, KeyCode::NumpadLock, KeyState::Down);
    }
    let cur = bits_from_mods(kb.get_modifiers());
    if (cur ^ target) & B_CAPSLOCK != 0 {
        ev(kb, KeyCode::CapsLock, KeyState::Down);
    }
    for (bit, key) in [(B_LSHIFT, KeyCode::LShift), (B_RSHIFT, KeyCode::RShift), (B_LCTRL, KeyCode::LControl), (B_RCTRL, KeyCode::RControl), (B_LALT, KeyCode::LAlt), (B_RALT, KeyCode::RAltGr), (B_RCTRL2, KeyCode::RControl2)] {
        let cur = bits_from_mods(kb.get_modifiers());
        if (cur ^ target) & bit != 0 {
            ev(kb, key, if target & bit != 0 { KeyState::Down } else { KeyState::Up });
        }
    }
    bits_from_mods(kb.get_modifiers()) == target
}

/// One observation of the collision-guided pair test: input x was pressed, the record moved to y's modifiers and mode with
/// modifier events only, then y's key was pressed.
pub struct PairObs {
    pub first: (usize, u16, usize),
    pub second: (usize, u16, usize),
    pub pre: Modifiers,
    pub got: Option<DecodedKey>,
}

/// Presses that leave some field of the Keyboard's Debug rendering with the *same value* although key, modifiers or mode
/// differ cannot be told apart by that field (a memo keyed on a lossy hash): exactly those pairs are pressed one after the
/// other.  Returns what the second press of each pair returned; the caller judges it with its own oracle.
pub fn leaf_collision_pairs(li: usize, keys: &[KeyCode]) -> (Vec<PairObs>, u64, u64) {
    use std::collections::hash_map::DefaultHasher;
    use std::hash::{Hash, Hasher};
    let plain: Vec<usize> = (0..keys.len()).filter(|i| !MOD_KEYS.contains(&keys[*i])).collect();
    let decode = |n: u32| -> (usize, u16, usize) { (plain[(n >> 10) as usize], (n & 511) as u16, ((n >> 9) & 1) as usize) };
    let total = (plain.len() as u32) << 10;
    let mut vals: Vec<(u64, u32)> = Vec::new();
    let mut fingerprinted = 0u64;
    for n in 0..total {
        let (ki, m, mode) = decode(n);
        let r = guarded(|| {
            let mut kb = Keyboard::new(ScancodeSet2::new(), dyn_layout(li, 0), MODES[mode]);
            if !goto_mods(&mut kb, m) {
                return None;
            }
            let _ = kb.process_keyevent(KeyEvent::new(keys[ki], KeyState::Down));
            Some(format!("{:?}", kb))
        });
        if let Ok(Some(r)) = r {
            fingerprinted += 1;
            for (path, value) in crate::novelty::flatten(&r) {
                // a wide number may pack several things (a hash and a value): its halves and quarters are fields of their own
                if let Ok(v) = value.parse::<u64>() {
                    if v > 0xFFFF {
                        let parts: [(&str, u64); 6] = [("hi32", v >> 32), ("lo32", v & 0xFFFF_FFFF), ("q0", v & 0xFFFF), ("q1", (v >> 16) & 0xFFFF), ("q2", (v >> 32) & 0xFFFF), ("q3", v >> 48)];
                        for (tag, part) in parts {
                            if part != 0 {
                                let mut h = DefaultHasher::new();
                                (&path, tag, part).hash(&mut h);
                                vals.push((h.finish(), n));
                            }
                        }
                    }
                }
                let mut h = DefaultHasher::new();
                (path, value).hash(&mut h);
                vals.push((h.finish(), n));
            }
        }
    }
    let mut pairs = std::collections::BTreeSet::new();
    crate::hidden::colliding_pairs(&mut vals, 3, &mut pairs, 200_000);
    drop(vals);
    let mut out = Vec::new();
    for (x, y) in pairs.iter() {
        let (fx, fy) = (decode(*x), decode(*y));
        let r = guarded(|| {
            let mut kb = Keyboard::new(ScancodeSet2::new(), dyn_layout(li, 0), MODES[fx.2]);
            if !goto_mods(&mut kb, fx.1) {
                return None;
            }
            let _ = kb.process_keyevent(KeyEvent::new(keys[fx.0], KeyState::Down));
            kb.set_ctrl_handling(MODES[fy.2]);
            if !goto_mods(&mut kb, fy.1) {
                return None;
            }
            let pre = kb.get_modifiers().clone();
            let got = kb.process_keyevent(KeyEvent::new(keys[fy.0], KeyState::Down));
            Some((pre, got))
        });
        if let Ok(Some((pre, got))) = r {
            out.push(PairObs { first: fx, second: fy, pre, got });
        }
    }
    (out, fingerprinted, pairs.len() as u64)
}

/// Histories built round the runs of key codes that the tree's source spells out (build.rs): each run in full and each
/// proper prefix, typed with nothing / Alt / Ctrl / Shift / AltGr / Ctrl+Alt held, keys released or not, followed by other keys.
pub fn real_world_key_sequences() -> Vec<Vec<KeyCode>> {
    use KeyCode::*;
    vec![
        vec![ScrollLock, ScrollLock, Key1, Return], // KVM switch hot-keys
        vec![ScrollLock, ScrollLock, Key2, Return],
        vec![ScrollLock, ScrollLock, ArrowUp],
        vec![NumpadLock, NumpadLock, Key1, Return],
        vec![LControl, LControl, Key1, Return],
        vec![LControl, LAlt, Delete], // secure attention
        vec![RControl, RAltGr, Delete],
        vec![LAlt, SysRq, R, E, I, S, U, B], // magic SysRq
        vec![LAlt, PrintScreen, R, E, I, S, U, B],
        vec![LShift, LShift, LShift, LShift, LShift], // sticky keys
        vec![LAlt, Numpad0, Numpad1, Numpad2, Numpad8], // Alt codes
        vec![LAlt, Numpad6, Numpad5],
        vec![LAlt, Tab, Tab],
        vec![LWin, L],
        vec![LControl, PauseBreak],
        vec![LControl, LAlt, F1],
        vec![LControl, LAlt, Backspace],
        vec![LControl, LShift, Escape],
        vec![LShift, Insert],
        vec![CapsLock, CapsLock],
        vec![Escape, Escape],
        vec![LControl, LShift, U, D, Key8, Key0, Key0, Return], // Ctrl+Shift+U hex entry (GTK / IBus), a surrogate
        vec![LControl, LShift, U, D, F, F, F, Spacebar],
        vec![LControl, LShift, U, Key2, Key0, A, C, Return],
        vec![LControl, LShift, U, F, F, F, F, F, F, F, F, Return],
        vec![RControl, RShift, U, Key1, Key1, Key0, Key0, Key0, Key0, Spacebar],
        vec![LAlt, X],
    ]
}

/// all sequences of length 1..=4 over the non-modifier keys that the decoders' source file names (build.rs), at most 16 of them
pub fn named_key_sequences() -> Vec<Vec<KeyCode>> {
    let ks: Vec<KeyCode> = decoder_named_keys().into_iter().filter(|k| !MOD_KEYS.contains(k) && NAMED_KEYS.contains(k)).take(16).collect();
    let mut out: Vec<Vec<KeyCode>> = Vec::new();
    let mut level: Vec<Vec<KeyCode>> = vec![vec![]];
    for _ in 0..4 {
        let mut next = Vec::new();
        for p in level.iter() {
            for k in ks.iter() {
                let mut q = p.clone();
                q.push(*k);
                next.push(q);
            }
        }
        out.extend(next.iter().cloned());
        level = next;
    }
    out
}

pub fn magic_key_histories() -> Vec<Vec<HOp>> {
    let mut out = Vec::new();
    // chords as real systems send them, with their releases: AltGr arriving as LCtrl + RAlt (Windows, VMs, remote desktops),
    // bracketing a key or nothing, repeated; then the same chord held while letters, digits and symbols are typed
    {
        use KeyCode::*;
        let d = |k| HOp::Ev(k, KeyState::Down);
        let u = |k| HOp::Ev(k, KeyState::Up);
        let typed = [Q, E, A, Key7, Key2, Oem4, Numpad7, F1];
        let brackets: [(&[KeyCode], &str); 4] = [(&[LControl, RAltGr], "ctrl+altgr"), (&[LControl, LAlt], "ctrl+alt"), (&[RControl, RAltGr], "rctrl+altgr"), (&[LShift, RAltGr], "shift+altgr")];
        for (chord, _) in brackets.iter() {
            for reps in 1..=4usize {
                for with_key in [false, true] {
                    let mut h: Vec<HOp> = Vec::new();
                    for r in 0..reps {
                        h.extend(chord.iter().map(|k| d(*k)));
                        if with_key {
                            h.push(d(typed[r % typed.len()]));
                            h.push(u(typed[r % typed.len()]));
                        }
                        h.extend(chord.iter().rev().map(|k| u(*k)));
                    }
                    // afterwards: plain, and with the chord (and each half of it) held
                    for k in typed.iter() {
                        h.push(d(*k));
                        h.push(u(*k));
                    }
                    h.extend(chord.iter().map(|k| d(*k)));
                    for k in typed.iter() {
                        h.push(d(*k));
                        h.push(u(*k));
                    }
                    h.push(u(chord[1]));
                    for k in typed.iter() {
                        h.push(d(*k));
                        h.push(u(*k));
                    }
                    h.push(u(chord[0]));
                    h.push(d(chord[1]));
                    for k in typed.iter() {
                        h.push(d(*k));
                    }
                    out.push(h);
                }
            }
        }
    }
    // many keys held at once (beyond any fixed-size list of held keys), modifiers pressed before or after them, then all the
    // other keys released in either order
    {
        let plain: Vec<KeyCode> = NAMED_KEYS.iter().copied().filter(|k| !MOD_KEYS.contains(k)).collect();
        let modsets: [&[KeyCode]; 4] = [&[KeyCode::LShift], &[KeyCode::RControl], &[KeyCode::RAltGr], &[KeyCode::LShift, KeyCode::LControl, KeyCode::LAlt]];
        for n in [1usize, 2, 5, 7, 8, 9, 15, 16, 17, 31, 32, 33, 63, 64, 65, 100, 115] {
            let keys: Vec<KeyCode> = plain.iter().copied().take(n).collect();
            for ms in modsets.iter() {
                for mods_first in [false, true] {
                    for reverse in [false, true] {
                        let mut h: Vec<HOp> = Vec::new();
                        if mods_first {
                            h.extend(ms.iter().map(|m| HOp::Ev(*m, KeyState::Down)));
                        }
                        h.extend(keys.iter().map(|k| HOp::Ev(*k, KeyState::Down)));
                        if !mods_first {
                            h.extend(ms.iter().map(|m| HOp::Ev(*m, KeyState::Down)));
                        }
                        let mut ups: Vec<KeyCode> = keys.clone();
                        if reverse {
                            ups.reverse();
                        }
                        h.extend(ups.iter().map(|k| HOp::Ev(*k, KeyState::Up)));
                        h.push(HOp::Ev(KeyCode::A, KeyState::Down));
                        h.push(HOp::Ev(KeyCode::A, KeyState::Up));
                        h.extend(ms.iter().map(|m| HOp::Ev(*m, KeyState::Up)));
                        h.push(HOp::Ev(KeyCode::A, KeyState::Down));
                        out.push(h);
                    }
                }
            }
        }
    }
    // short runs over the keys the decoder names: each typed with nothing / each momentary modifier / CapsLock held
    {
        let ctxs: [&[KeyCode]; 9] = [&[], &[KeyCode::LShift], &[KeyCode::RShift], &[KeyCode::LControl], &[KeyCode::RControl], &[KeyCode::LAlt], &[KeyCode::RAltGr], &[KeyCode::CapsLock], &[KeyCode::LShift, KeyCode::RControl, KeyCode::LAlt]];
        for seq in named_key_sequences() {
            for ctx in ctxs.iter() {
                let mut h: Vec<HOp> = ctx.iter().map(|m| HOp::Ev(*m, KeyState::Down)).collect();
                h.extend(seq.iter().map(|k| HOp::Ev(*k, KeyState::Down)));
                h.push(HOp::Ev(KeyCode::A, KeyState::Down));
                h.push(HOp::Ev(*seq.last().unwrap(), KeyState::Down));
                out.push(h);
            }
        }
    }
    let follow = [KeyCode::A, KeyCode::F1, KeyCode::Numpad7, KeyCode::Return, KeyCode::Delete];
    let ctxs: [&[KeyCode]; 6] = [&[], &[KeyCode::LAlt], &[KeyCode::LControl], &[KeyCode::LShift], &[KeyCode::RAltGr], &[KeyCode::LControl, KeyCode::LAlt]];
    for seq in magic_key_sequences().into_iter().chain(real_world_key_sequences()) {
        for n in 1..=seq.len() {
            for ctx in ctxs.iter() {
                for release in [false, true] {
                    let mut h: Vec<HOp> = ctx.iter().map(|m| HOp::Ev(*m, KeyState::Down)).collect();
                    for k in &seq[..n] {
                        h.push(HOp::Ev(*k, KeyState::Down));
                        if release {
                            h.push(HOp::Ev(*k, KeyState::Up));
                        }
                    }
                    // what comes after the run: other keys, the run's own keys again, the modifiers released
                    for f in follow.iter() {
                        h.push(HOp::Ev(*f, KeyState::Down));
                        h.push(HOp::Ev(*f, KeyState::Up));
                    }
                    for k in &seq[..n] {
                        h.push(HOp::Ev(*k, KeyState::Down));
                    }
                    for m in ctx.iter() {
                        h.push(HOp::Ev(*m, KeyState::Up));
                    }
                    h.push(HOp::Ev(seq[0], KeyState::Down));
                    out.push(h);
                }
            }
        }
    }
    out
}

pub fn through_decoder(prop: &str, rep: &mut Report, cube: &Cube, focus: &[KeyCode], acc: &dyn Fn(usize, usize, u16, usize) -> Acc) {
    let (n_hist, len) = if rep.thorough() { (4000usize, 400usize) } else { (120, 250) };
    let mut presses = 0u64;
    let mut judged = 0u64;
    let mut repeats = 0u64;
    let all: Vec<KeyCode> = cube.keys.clone();
    // "ABA" histories: a key, then exactly 2^8 / 2^16 modifier (or mode) changes that end in a different state, then the
    // same key again – whatever stamps or counts events with a narrow integer sees the old value again
    let mut aba: Vec<Vec<HOp>> = Vec::new();
    for k in focus.iter().take(3) {
        // 2^k and its two neighbours (a tag that skips one value has period 2^k - 1)
        for period in [253usize, 254, 255, 256, 257, 258, 259, 65_533, 65_534, 65_535, 65_536, 65_537, 65_538, 65_539] {
            // (changes, final change): `period` events that are also `period` real state changes, ending in a state that
            // differs from the one of the first press and in which the property still constrains the key
            let alt = |key: KeyCode, n: usize| -> Vec<HOp> { (0..n).map(|i| HOp::Ev(key, if i % 2 == 0 { KeyState::Down } else { KeyState::Up })).collect() };
            let rep = |key: KeyCode, n: usize| -> Vec<HOp> { (0..n).map(|_| HOp::Ev(key, KeyState::Down)).collect() };
            let combos: [(Vec<HOp>, KeyCode); 4] = [
                (alt(KeyCode::RShift, period - 1), KeyCode::LShift),     // ends {lshift, rshift}: shifted level
                (alt(KeyCode::RControl, period - 1), KeyCode::LControl), // ends {lctrl, rctrl}: Ctrl held
                (rep(KeyCode::NumpadLock, period - 1), KeyCode::LShift), // NumLock toggled an odd number of times
                (rep(KeyCode::CapsLock, period - 1), KeyCode::RAltGr),   // CapsLock on, AltGr held
            ];
            for (changes, last) in combos {
                let mut v = vec![HOp::Ev(*k, KeyState::Down); 4];
                v.extend(changes);
                v.push(HOp::Ev(last, KeyState::Down));
                v.extend(vec![HOp::Ev(*k, KeyState::Down); 4]);
                v.extend((0..period).map(|i| HOp::Mode(i % 2)));
                v.push(HOp::Ev(*k, KeyState::Down));
                v.push(HOp::Mode(1));
                v.push(HOp::Ev(*k, KeyState::Down));
                aba.push(v);
            }
        }
    }
    // histories built round particular runs of keys do not depend on the layout: they are typed on one layout per run
    let n_core = aba.len();
    aba.extend(magic_key_histories());
    let n_aba = aba.len();
    let magic_li = (rep.seed as usize) % cube.n_layouts;
    for li in 0..cube.n_layouts {
        for h in 0..(n_hist + n_aba) {
            if h >= n_hist + n_core && li != magic_li {
                continue;
            }
            let mut rng = Rng::fork(rep.seed, 0x7470_0000 + ((li as u64) << 24) + h as u64);
            let ops = if h >= n_hist { aba[h - n_hist].clone() } else { history(&mut rng, focus, &all, if h < 2 { len * 40 } else { len }) };
            let r = guarded(|| {
                let mut kb = Keyboard::new(ScancodeSet2::new(), dyn_layout(li, 0), if h % 2 == 0 { HandleControl::MapLettersToUnicode } else { HandleControl::Ignore });
                let mut bad: Option<(usize, u16, usize, u32, String)> = None;
                let (mut p, mut j, mut rp) = (0u64, 0u64, 0u64);
                let mut held: Vec<KeyCode> = Vec::new();
                for (i, op) in ops.iter().enumerate() {
                    match op {
                        HOp::Mode(m) => kb.set_ctrl_handling(MODES[*m]),
                        HOp::Extra(x) => extra_kb_op!(kb, *x),
                        HOp::Ev(k, st) => {
                            let out = kb.process_keyevent(KeyEvent::new(*k, *st));
                            if *st == KeyState::Up {
                                held.retain(|x| x != k);
                            }
                            if *st != KeyState::Down || MOD_KEYS.contains(k) {
                                continue;
                            }
                            p += 1;
                            if held.contains(k) {
                                rp += 1;
                            } else {
                                held.push(*k);
                            }
                            let Some(ki) = cube.key_index(*k) else { continue };
                            let m = bits_from_mods(kb.get_modifiers());
                            let mode = mode_idx(kb.get_ctrl_handling());
                            let got = out.map(dk_enc).unwrap_or(ENC_NONE);
                            let verdict = judge(cube, acc, li, *k, ki, m, mode, got, &mut j);
                            if let Some(want) = verdict {
                                bad = Some((i, m, mode, got, want));
                                break;
                            }
                        }
                    }
                }
                (bad, p, j, rp)
            });
            match r {
                Ok((bad, p, j, rp)) => {
                    presses += p;
                    judged += j;
                    repeats += rp;
                    if let Some((i, m, mode, got, want)) = bad {
                        let (k, _) = match ops[i] {
                            HOp::Ev(k, s) => (k, s),
                            _ => (KeyCode::A, KeyState::Down),
                        };
                        let gs = if got == ENC_NONE { "None".to_string() } else { cube.show(got) };
                        let tail: Vec<String> = ops[i.saturating_sub(8)..=i].iter().map(|o| o.show()).collect();
                        rep.violate(
                            format!("{}|via-decoder|{}|key={:?}|want={}|got={}", prop, layout_name(li), k, want, gs),
                            format!(
                                "{} through Keyboard::process_keyevent: after … {} the press of {:?} with reported modifiers {} (Ctrl mode {}) typed {}; the property requires {}",
                                layout_name(li),
                                tail.join(", "),
                                k,
                                mods_str(m),
                                mode_str(MODES[mode]),
                                gs,
                                want
                            ),
                            J::obj()
                                .with("kind", J::s("events"))
                                .with("layout", J::s(layout_name(li)))
                                .with("initial_mode", J::s(if h % 2 == 0 { "Map" } else { "Ignore" }))
                                .with("ops", J::strs(ops[..=i].iter().map(|o| o.show())))
                                .with("expected_last", J::s(want))
                                .with("observed_last", J::s(gs)),
                        );
                    }
                }
                // a panic inside the decoder or a layout is C08's matter, not this property's
                Err(_) => rep.count("via_decoder_histories_aborted_by_a_panic", 1),
            }
        }
    }
    // the same ABA shape with exactly 2^k changes for every k (a tag or generation that is truncated to k bits sees its old value
    // again): streamed, one thread per combination, judged afterwards.  quick: k = 9..26, thorough: k = 9..32
    {
        let kmax: u32 = if light() { 17 } else if rep.thorough() { 32 } else { 26 };
        let key = focus[(rep.seed % focus.len() as u64) as usize];
        let mut handles = Vec::new();
        for (c, (tog, alt, last)) in BIG_COMBOS.iter().enumerate() {
            let li = ((rep.seed as usize) + c * 3) % cube.n_layouts;
            let (tog, alt, last) = (*tog, *alt, *last);
            handles.push((
                li,
                c,
                std::thread::spawn(move || {
                    let mut all = Vec::new();
                    if c == 0 {
                        // the numpad shape rides on the first thread (small n only: it is cheap)
                        for k in 8..=17u32 {
                            for d in -3i64..=3 {
                                if let Ok(obs) = guarded(|| numlock_aba(dyn_layout(li, 0), KeyCode::Numpad7, ((1i64 << k) + d) as u64)) {
                                    all.push((100 + k, obs));
                                }
                            }
                        }
                    }
                    for k in 9..=kmax {
                        // 2^k, and for the smaller ones its two neighbours as well
                        let ns: &[i64] = if k <= 18 { &[0, -1, 1, -2, 2, -3, 3] } else { &[0] };
                        for d in ns {
                            match guarded(|| big_aba(dyn_layout(li, 0), key, tog, alt, last, ((1i64 << k) + d) as u64)) {
                                Ok(obs) => all.push((k, obs)),
                                Err(_) => return Err(()),
                            }
                        }
                    }
                    Ok(all)
                }),
            ));
        }
        for (li, c, h) in handles {
            match h.join() {
                Ok(Ok(all)) => {
                    for (k, obs) in all {
                        // entries numbered 100 + k are the numpad shape (Numpad7)
                        let numpad_shape = k >= 100;
                        let (key, k) = if numpad_shape { (KeyCode::Numpad7, k - 100) } else { (key, k) };
                        let Some(ki) = cube.key_index(key) else { continue };
                        rep.count("aba_2^k_histories", 1);
                        rep.count("aba_2^k_events", 2u64 << k);
                        for o in obs {
                            presses += 1;
                            let got = o.got.map(dk_enc).unwrap_or(ENC_NONE);
                            if let Some(want) = judge(cube, acc, li, key, ki, o.mods, mode_idx(o.mode), got, &mut judged) {
                                let gs = if got == ENC_NONE { "None".to_string() } else { cube.show(got) };
                                rep.violate(
                                    format!("{}|via-decoder|{}|key={:?}|want={}|got={}", prop, layout_name(li), key, want, gs),
                                    format!(
                                        "{} through Keyboard::process_keyevent, history with about 2^{} changes ({}), press '{}': {:?} with reported modifiers {} (Ctrl mode {}) typed {}; the property requires {}",
                                        layout_name(li), k, if numpad_shape { "NumLock off, the key, n-1 CapsLock presses and one NumLock press for n = 2^k-3..2^k+3".to_string() } else { format!("#{}: {:?} … then {:?}, n = 2^k-3..2^k+3", c, BIG_COMBOS[c].0, BIG_COMBOS[c].2) }, o.step, key, mods_str(o.mods), mode_str(o.mode), gs, want
                                    ),
                                    J::obj().with("kind", J::s("aba-2^k")).with("k", J::u(k as u64)).with("layout", J::s(layout_name(li))).with("combo", J::u(c as u64)).with("step", J::s(o.step)),
                                );
                            }
                        }
                    }
                }
                _ => rep.count("via_decoder_histories_aborted_by_a_panic", 1),
            }
        }
    }
    // a press of the key judged after EVERY count 1..n of changes since its first press (forks.rs): whatever period a stamp
    // on a remembered look-up has – a power of ten, a prime, anything up to n – the step where it comes round is judged
    {
        use crate::forks::*;
        let n_mods: u64 = if light() { 1 << 12 } else if rep.thorough() { 1 << 29 } else { 1 << 23 };
        let n_lay: u64 = if light() { 1 << 10 } else if rep.thorough() { 1 << 26 } else { 1 << 21 };
        let keys: Vec<KeyCode> = (0..2usize).map(|i| focus[((rep.seed as usize) + i * 7) % focus.len()]).collect();
        let mut handles = Vec::new();
        for (kn, key) in keys.iter().enumerate() {
            let key = *key;
            let li = ((rep.seed as usize) + kn * 3) % 10;
            for held in [true, false] {
                for shape in MOD_SHAPES {
                    handles.push((key, format!("{:?}", shape), held, std::thread::spawn(move || guarded(|| every_count_mods(li, key, shape, held, n_mods)))));
                }
                let (b, c) = ((li + 1 + (rep.seed as usize) % 4) % 10, (li + 5 + (rep.seed as usize) % 4) % 10);
                for shape in [Shape::LayoutSame(b), Shape::LayoutAlternate(b, c)] {
                    handles.push((key, format!("{:?}", shape), held, std::thread::spawn(move || guarded(|| every_count_layouts(li, key, shape, held, kn % 2, n_lay)))));
                }
            }
        }
        let mut steps = 0u64;
        for (key, shape, held, h) in handles {
            let Some(ki) = cube.key_index(key) else { continue };
            match h.join() {
                Ok(Ok(obs)) => {
                    for o in obs {
                        presses += o.times;
                        steps += o.times;
                        if o.li >= cube.n_layouts {
                            continue;
                        }
                        if let Some(want) = judge(cube, acc, o.li, key, ki, o.mods, o.mode, o.got, &mut judged) {
                            let gs = if o.got == ENC_NONE { "None".to_string() } else { cube.show(o.got) };
                            rep.violate(
                                format!("{}|via-decoder|{}|key={:?}|want={}|got={}", prop, layout_name(o.li), key, want, gs),
                                format!(
                                    "{} through process_keyevent, a press judged after every count of changes (shape {}, key {}): {} changes after the first press of {:?}, with reported modifiers {} (Ctrl mode {}) it typed {}; the property requires {}",
                                    layout_name(o.li), shape, if held { "held" } else { "released" }, o.first_step, key, mods_str(o.mods), mode_str(MODES[o.mode]), gs, want
                                ),
                                J::obj().with("kind", J::s("every-count")).with("shape", J::s(shape.clone())).with("held", J::Bool(held)).with("layout", J::s(layout_name(o.li))).with("key", J::s(kname(key))).with("changes", J::u(o.first_step)),
                            );
                        }
                    }
                }
                _ => rep.count("via_decoder_histories_aborted_by_a_panic", 1),
            }
        }
        rep.count("presses_judged_after_every_count_of_changes_(forked_object)", steps);
    }
    // one remembered look-up, then 1..n change_layout calls, and after every one of them every key under a modifier set
    // (on throw-away duplicates): a stamp that mixes a generation count into a digest of the input lets a different
    // input match some generations later
    {
        use crate::forks::*;
        let n: u64 = if light() { 1 << 8 } else if rep.thorough() { 1 << 21 } else { 1 << 17 };
        let all_momentary = B_LSHIFT | B_RSHIFT | B_LCTRL | B_RCTRL | B_LALT | B_RALT | B_RCTRL2;
        let mut rng = Rng::fork(rep.seed, 0x6c61_7964);
        let mod_sets: Vec<u16> = vec![0, all_momentary, all_momentary | B_CAPSLOCK, B_LSHIFT, B_RCTRL, B_RALT, (rng.next() % 512) as u16, (rng.next() % 512) as u16];
        let firsts: [(KeyCode, bool); 3] = [(KeyCode::Numpad0, true), (focus[(rep.seed as usize) % focus.len()], false), (KeyCode::A, false)];
        let a = (rep.seed as usize) % 10;
        let b = (a + 1 + (rep.seed as usize / 10) % 9) % 10;
        let mut handles = Vec::new();
        for (first, off) in firsts {
            for m in mod_sets.iter().copied() {
                for mode in 0..2usize {
                    let keys = all.clone();
                    handles.push((first, off, m, mode, std::thread::spawn(move || guarded(|| layout_distance_probe(a, b, first, off, m, mode, &keys, n)))));
                }
            }
        }
        let mut probes = 0u64;
        for (first, off, m, mode, h) in handles {
            let Ok(Ok(obs)) = h.join() else {
                rep.count("via_decoder_histories_aborted_by_a_panic", 1);
                continue;
            };
            probes += n * all.len() as u64;
            let m = if off { m & !B_NUMLOCK } else { m | B_NUMLOCK };
            for (li, ki, got, d) in obs {
                presses += 1;
                if li >= cube.n_layouts {
                    continue;
                }
                let key = all[ki];
                let Some(cki) = cube.key_index(key) else { continue };
                if let Some(want) = judge(cube, acc, li, key, cki, m, mode, got, &mut judged) {
                    let gs = if got == ENC_NONE { "None".to_string() } else { cube.show(got) };
                    rep.violate(
                        format!("{}|via-decoder|{}|key={:?}|want={}|got={}", prop, layout_name(li), key, want, gs),
                        format!(
                            "EventDecoder<AnyLayout>: {:?} typed{} on {}, then {} change_layout calls (ending on {}), modifiers {} pressed: the press of {:?} (Ctrl mode {}) typed {}; the property requires {}",
                            first, if off { " with NumLock off" } else { "" }, layout_name(a), d, layout_name(li), mods_str(m), key, mode_str(MODES[mode]), gs, want
                        ),
                        J::obj().with("kind", J::s("layout-distance")).with("first", J::s(kname(first))).with("changes", J::u(d)).with("layout", J::s(layout_name(li))).with("key", J::s(kname(key))).with("mods", J::s(mods_str(m))),
                    );
                }
            }
        }
        rep.count("presses_on_duplicates_after_every_number_of_change_layout_calls", probes);
    }
    // other keys held in the background: a modifier context, every other key Y pressed and kept down, a third key tapped
    // (and in a second form Y released again), then the focus key – bookkeeping about which keys are down (a bitmap, a
    // list, "nothing held any more" recoveries) must not reach what the focus key types
    {
        let contexts: [&[KeyCode]; 6] = [&[], &[KeyCode::LControl], &[KeyCode::RControl], &[KeyCode::LShift], &[KeyCode::RAltGr], &[KeyCode::LControl, KeyCode::RShift]];
        let taps = [KeyCode::X, KeyCode::Key5, KeyCode::F3];
        let mut n_bg = 0u64;
        for li in [(rep.seed as usize) % cube.n_layouts, ((rep.seed as usize) + 5) % cube.n_layouts] {
            for (ci, ctx) in contexts.iter().enumerate() {
                for y in all.iter().filter(|k| !MOD_KEYS.contains(k)) {
                    for (ti, tap) in taps.iter().enumerate() {
                        for release_y in [false, true] {
                            if release_y && ti != 0 {
                                continue;
                            }
                            let r = guarded(|| {
                                let mut kb = Keyboard::new(ScancodeSet2::new(), dyn_layout(li, 0), MODES[(ci + ti) % 2]);
                                for k in ctx.iter() {
                                    let _ = kb.process_keyevent(KeyEvent::new(*k, KeyState::Down));
                                }
                                let _ = kb.process_keyevent(KeyEvent::new(*y, KeyState::Down));
                                let _ = kb.process_keyevent(KeyEvent::new(*tap, KeyState::Down));
                                let _ = kb.process_keyevent(KeyEvent::new(*tap, KeyState::Up));
                                if release_y {
                                    let _ = kb.process_keyevent(KeyEvent::new(*y, KeyState::Up));
                                }
                                let mut res = Vec::new();
                                for f in focus.iter() {
                                    if f == y || f == tap {
                                        continue;
                                    }
                                    let got = kb.process_keyevent(KeyEvent::new(*f, KeyState::Down));
                                    res.push((*f, bits_from_mods(kb.get_modifiers()), mode_idx(kb.get_ctrl_handling()), got.map(dk_enc).unwrap_or(ENC_NONE)));
                                    let _ = kb.process_keyevent(KeyEvent::new(*f, KeyState::Up));
                                }
                                res
                            });
                            n_bg += 1;
                            let Ok(res) = r else { continue };
                            for (f, m, mode, got) in res {
                                presses += 1;
                                let Some(ki) = cube.key_index(f) else { continue };
                                if let Some(want) = judge(cube, acc, li, f, ki, m, mode, got, &mut judged) {
                                    let gs = if got == ENC_NONE { "None".to_string() } else { cube.show(got) };
                                    rep.violate(
                                        format!("{}|via-decoder|{}|key={:?}|want={}|got={}", prop, layout_name(li), f, want, gs),
                                        format!(
                                            "{} through Keyboard::process_keyevent: with {:?} held, {:?} pressed and kept down, {:?} tapped{}, the press of {:?} with reported modifiers {} (Ctrl mode {}) typed {}; the property requires {}",
                                            layout_name(li), ctx, y, tap, if release_y { format!(", {:?} released", y) } else { String::new() }, f, mods_str(m), mode_str(MODES[mode]), gs, want
                                        ),
                                        J::obj().with("kind", J::s("background-keys")).with("layout", J::s(layout_name(li))).with("context", J::s(format!("{:?}", ctx))).with("held", J::s(kname(*y))).with("tapped", J::s(kname(*tap))).with("key", J::s(kname(f))),
                                    );
                                    break;
                                }
                            }
                        }
                    }
                }
            }
        }
        rep.count("histories_with_other_keys_held_in_the_background", n_bg);
    }
    // heavy typing, then a change of layout (EventDecoder<AnyLayout>): for each focus key K that two layouts A and B type
    // differently – tens of thousands of presses in alternating modifier contexts on A, K, as many presses again,
    // change_layout(B), K: what was typed on A, and how much of it, must not show on B
    {
        use pc_keyboard::EventDecoder;
        let b = (rep.seed as usize) % 10;
        let mut scenarios = 0u64;
        for k in focus.iter().take(24) {
            let Some(ki) = cube.key_index(*k) else { continue };
            // a layout that types this key differently (NumLock on, nothing held, mapping mode)
            let Some(a) = (0..10usize).find(|a| *a != b && cube.get(*a, 0, ki, 0, B_NUMLOCK) != cube.get(b, 0, ki, 0, B_NUMLOCK)) else { continue };
            // the keys used for the bulk typing differ from K in the low bits of their code (a table indexed by them keeps K)
            let bulk: Vec<KeyCode> = [KeyCode::Key1, KeyCode::Oem4, KeyCode::Key6, KeyCode::W, KeyCode::Oem2, KeyCode::H]
                .into_iter()
                .filter(|c| (*c as u8 ^ *k as u8) & 0x3F != 0 && (*c as u8 ^ *k as u8) & 0x0F != 0)
                .take(2)
                .collect();
            if bulk.len() < 2 {
                continue;
            }
            let key = *k;
            let r = guarded(|| {
                let mut dec = EventDecoder::new(any_value(a), HandleControl::MapLettersToUnicode);
                let ev = |dec: &mut EventDecoder<pc_keyboard::layouts::AnyLayout>, k: KeyCode, s: KeyState| dec.process_keyevent(KeyEvent::new(k, s));
                let churn = |dec: &mut EventDecoder<pc_keyboard::layouts::AnyLayout>, n: usize| {
                    for i in 0..n {
                        ev(dec, KeyCode::LShift, if i % 2 == 0 { KeyState::Down } else { KeyState::Up });
                        ev(dec, bulk[(i / 2) % 2], KeyState::Down);
                    }
                    ev(dec, KeyCode::LShift, KeyState::Up);
                };
                churn(&mut dec, 35_000);
                let _ = ev(&mut dec, key, KeyState::Down);
                let _ = ev(&mut dec, key, KeyState::Up);
                churn(&mut dec, 35_000);
                dec.change_layout(any_value(b));
                ev(&mut dec, key, KeyState::Down)
            });
            scenarios += 1;
            if let Ok(got) = r {
                presses += 1;
                let got = got.map(dk_enc).unwrap_or(ENC_NONE);
                if let Some(want) = judge(cube, acc, b, key, ki, B_NUMLOCK, 0, got, &mut judged) {
                    let gs = if got == ENC_NONE { "None".to_string() } else { cube.show(got) };
                    rep.violate(
                        format!("{}|via-decoder|{}|key={:?}|want={}|got={}", prop, layout_name(b), key, want, gs),
                        format!(
                            "EventDecoder<AnyLayout>: 35 000 presses on {}, {:?}, 35 000 more presses, change_layout to {}: the press of {:?} (NumLock on, nothing held, Ctrl mode Map) typed {}; the property requires {}",
                            layout_name(a), key, layout_name(b), key, gs, want
                        ),
                        J::obj().with("kind", J::s("heavy-typing-then-switch")).with("from", J::s(layout_name(a))).with("to", J::s(layout_name(b))).with("key", J::s(kname(key))),
                    );
                }
            }
        }
        rep.count("heavy_typing_then_change_of_layout_scenarios", scenarios);
    }
    // collision-guided pairs: presses that leave a field of the Keyboard's rendering equal although their inputs differ
    {
        let li = (rep.seed as usize) % cube.n_layouts;
        let (obs, fingerprinted, pairs) = leaf_collision_pairs(li, &cube.keys);
        rep.count("presses_fingerprinted_by_the_fields_of_the_rendering", fingerprinted);
        rep.count("pairs_of_presses_that_leave_a_field_equal_pressed_back_to_back", pairs);
        for o in obs {
            presses += 1;
            let (ki, _, mode) = o.second;
            let m = bits_from_mods(&o.pre);
            let got = o.got.map(dk_enc).unwrap_or(ENC_NONE);
            if let Some(want) = judge(cube, acc, li, cube.keys[ki], ki, m, mode, got, &mut judged) {
                let gs = if got == ENC_NONE { "None".to_string() } else { cube.show(got) };
                let k1 = cube.keys[o.first.0];
                rep.violate(
                    format!("{}|via-decoder|{}|key={:?}|want={}|got={}", prop, layout_name(li), cube.keys[ki], want, gs),
                    format!(
                        "{} through Keyboard::process_keyevent: after a press of {:?} with {} (mode {}) and modifier events only, the press of {:?} with reported modifiers {} (Ctrl mode {}) typed {}; the property requires {}",
                        layout_name(li), k1, mods_str(o.first.1), mode_str(MODES[o.first.2]), cube.keys[ki], mods_str(m), mode_str(MODES[mode]), gs, want
                    ),
                    J::obj().with("kind", J::s("collision-pair")).with("layout", J::s(layout_name(li))).with("first", J::s(format!("{:?} {} {}", k1, mods_str(o.first.1), mode_str(MODES[o.first.2])))).with("second", J::s(format!("{:?} {} {}", cube.keys[ki], mods_str(m), mode_str(MODES[mode])))),
                );
            }
        }
    }
    // one literal history of this run, as evidence of what the workload looks like
    {
        let mut rng = Rng::fork(rep.seed, 0x7470_0000);
        let ops = history(&mut rng, focus, &all, 14);
        rep.sample_str(format!("via-decoder history (Us104Key): {}", ops.iter().map(|o| o.show()).collect::<Vec<_>>().join(", ")));
    }
    rep.evaluations += judged;
    rep.count("via_decoder_presses", presses);
    rep.count("via_decoder_presses_judged_by_the_property", judged);
    rep.count("via_decoder_presses_of_a_key_still_held", repeats);
    rep.require("via-decoder presses judged", judged, 1000);
}
