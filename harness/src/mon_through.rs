//! The layout properties as a user of the public API experiences them: hostile key-event histories
//! (held keys re-pressed without release, modifier / lock toggles and set_ctrl_handling calls between
//! two presses of the same key …) are driven through a real `Keyboard`, and every decoded key is judged
//! by the *property's own* per-cell predicate, evaluated at the decoder's reported modifier state and
//! Ctrl mode.  A property is reported only when its predicate is contradicted by what was typed.

use crate::cube::Cube;
use crate::json::J;
use crate::keys::*;
use crate::layouts::*;
use crate::refs::numpad_alias;
use crate::report::*;
use crate::rng::Rng;
use pc_keyboard::{HandleControl, KeyCode, KeyEvent, KeyState, Keyboard, ScancodeSet2};

/// What a property accepts as the decoded key of one press.
pub enum Acc {
    /// the property says nothing about this cell
    Any,
    /// the decoded key must be one of these (cube encoding)
    OneOf(Vec<u32>),
    /// if the decoded key is a raw key it must be the pressed key or its NumLock-off alias
    RawSelfOrAlias,
}

pub const ENC_NONE: u32 = 0xFFFF_FFFE;

#[derive(Clone, Copy)]
pub enum HOp {
    Ev(KeyCode, KeyState),
    Mode(usize),
}
impl HOp {
    pub fn show(&self) -> String {
        match self {
            HOp::Ev(k, s) => format!("{}({:?})", state_str(*s), k),
            HOp::Mode(m) => format!("set_ctrl_handling({})", mode_str(MODES[*m])),
        }
    }
}

/// A history built to provoke anything that remembers earlier presses: a focus key is pressed again and
/// again (mostly without release) while modifiers, locks and the Ctrl mode change in between.
pub fn history(rng: &mut Rng, focus: &[KeyCode], all: &[KeyCode], len: usize) -> Vec<HOp> {
    let mut ops = Vec::with_capacity(len);
    let mut k = *rng.pick(focus);
    while ops.len() < len {
        match rng.below(100) {
            0..=44 => ops.push(HOp::Ev(k, KeyState::Down)),
            45..=52 => ops.push(HOp::Ev(k, KeyState::Up)),
            53..=77 => {
                let mk = *rng.pick(&MOD_KEYS);
                let st = if rng.below(5) < 3 { KeyState::Down } else { KeyState::Up };
                ops.push(HOp::Ev(mk, st));
            }
            78..=83 => ops.push(HOp::Mode(rng.below(2) as usize)),
            84..=91 => ops.push(HOp::Ev(*rng.pick(all), *rng.pick(&STATES))),
            92..=95 => ops.push(HOp::Ev(*rng.pick(focus), KeyState::Down)),
            _ => k = *rng.pick(focus),
        }
    }
    ops
}

pub fn through_decoder(prop: &str, rep: &mut Report, cube: &Cube, focus: &[KeyCode], acc: &dyn Fn(usize, usize, u16, usize) -> Acc) {
    let (n_hist, len) = if rep.thorough() { (4000usize, 400usize) } else { (120, 250) };
    let mut presses = 0u64;
    let mut judged = 0u64;
    let mut repeats = 0u64;
    let all: Vec<KeyCode> = cube.keys.clone();
    for li in 0..10 {
        for h in 0..n_hist {
            let mut rng = Rng::fork(rep.seed, 0x7470_0000 + ((li as u64) << 24) + h as u64);
            let ops = history(&mut rng, focus, &all, if h < 2 { len * 40 } else { len });
            let r = guarded(|| {
                let mut kb = Keyboard::new(ScancodeSet2::new(), dyn_layout(li, 0), if h % 2 == 0 { HandleControl::MapLettersToUnicode } else { HandleControl::Ignore });
                let mut bad: Option<(usize, u16, usize, u32, String)> = None;
                let (mut p, mut j, mut rp) = (0u64, 0u64, 0u64);
                let mut held: Vec<KeyCode> = Vec::new();
                for (i, op) in ops.iter().enumerate() {
                    match op {
                        HOp::Mode(m) => kb.set_ctrl_handling(MODES[*m]),
                        HOp::Ev(k, st) => {
                            let out = kb.process_keyevent(KeyEvent::new(*k, *st));
                            if *st == KeyState::Up {
                                held.retain(|x| x != k);
                            }
                            if *st != KeyState::Down || MOD_KEYS.contains(k) {
                                continue;
                            }
                            p += 1;
                            if held.contains(k) {
                                rp += 1;
                            } else {
                                held.push(*k);
                            }
                            let Some(ki) = cube.key_index(*k) else { continue };
                            let m = bits_from_mods(kb.get_modifiers());
                            let mode = mode_idx(kb.get_ctrl_handling());
                            let got = out.map(dk_enc).unwrap_or(ENC_NONE);
                            let verdict = match acc(li, ki, m, mode) {
                                Acc::Any => None,
                                Acc::OneOf(v) => {
                                    j += 1;
                                    if v.contains(&got) {
                                        None
                                    } else {
                                        Some(v.iter().map(|e| cube.show(*e)).collect::<Vec<_>>().join("|"))
                                    }
                                }
                                Acc::RawSelfOrAlias => {
                                    j += 1;
                                    let own = 0x8000_0000 | kidx(*k) as u32;
                                    let alias_ok = m & B_NUMLOCK == 0 && numpad_alias(*k).map(|a| got == (0x8000_0000 | kidx(a) as u32)).unwrap_or(false);
                                    if !enc_is_raw(got) || got == own || alias_ok {
                                        None
                                    } else {
                                        Some(format!("Raw({:?}) or its NumLock-off alias", k))
                                    }
                                }
                            };
                            if let Some(want) = verdict {
                                bad = Some((i, m, mode, got, want));
                                break;
                            }
                        }
                    }
                }
                (bad, p, j, rp)
            });
            match r {
                Ok((bad, p, j, rp)) => {
                    presses += p;
                    judged += j;
                    repeats += rp;
                    if let Some((i, m, mode, got, want)) = bad {
                        let (k, _) = match ops[i] {
                            HOp::Ev(k, s) => (k, s),
                            _ => (KeyCode::A, KeyState::Down),
                        };
                        let gs = if got == ENC_NONE { "None".to_string() } else { cube.show(got) };
                        let tail: Vec<String> = ops[i.saturating_sub(8)..=i].iter().map(|o| o.show()).collect();
                        rep.violate(
                            format!("{}|via-decoder|{}|key={:?}|want={}|got={}", prop, LAYOUT_NAMES[li], k, want, gs),
                            format!(
                                "{} through Keyboard::process_keyevent: after … {} the press of {:?} with reported modifiers {} (Ctrl mode {}) typed {}; the property requires {}",
                                LAYOUT_NAMES[li],
                                tail.join(", "),
                                k,
                                mods_str(m),
                                mode_str(MODES[mode]),
                                gs,
                                want
                            ),
                            J::obj()
                                .with("kind", J::s("events"))
                                .with("layout", J::s(LAYOUT_NAMES[li]))
                                .with("initial_mode", J::s(if h % 2 == 0 { "Map" } else { "Ignore" }))
                                .with("ops", J::strs(ops[..=i].iter().map(|o| o.show())))
                                .with("expected_last", J::s(want))
                                .with("observed_last", J::s(gs)),
                        );
                    }
                }
                // a panic inside the decoder or a layout is C08's matter, not this property's
                Err(_) => rep.count("via_decoder_histories_aborted_by_a_panic", 1),
            }
        }
    }
    // one literal history of this run, as evidence of what the workload looks like
    {
        let mut rng = Rng::fork(rep.seed, 0x7470_0000);
        let ops = history(&mut rng, focus, &all, 14);
        rep.sample_str(format!("via-decoder history (Us104Key): {}", ops.iter().map(|o| o.show()).collect::<Vec<_>>().join(", ")));
    }
    rep.evaluations += judged;
    rep.count("via_decoder_presses", presses);
    rep.count("via_decoder_presses_judged_by_the_property", judged);
    rep.count("via_decoder_presses_of_a_key_still_held", repeats);
    rep.require("via-decoder presses judged", judged, 1000);
}
