//! "Fork at every step": a press of the focus key is judged after *every* count 1, 2, 3 … n of changes (modifier events,
//! set_ctrl_handling calls, change_layout calls) since its last judged press – not only at the powers of two of the ABA
//! histories.  The object under test is never disturbed by the probe: at each step a bitwise duplicate of it is pressed
//! and thrown away (the crate is no_std without alloc, none of its types owns anything or implements Drop, so a
//! duplicate made with ptr::read is an independent, equally valid object; it is wrapped in ManuallyDrop all the same).
//! Whatever stamps a remembered look-up with a counter of *any* period ≤ n (10^6, a prime, 2^k·3 …) shows its stale
//! answer at the step where the stamp comes round, because every step's state differs from the state of the first press.
//!
//! Also here: collision-guided pairs steered by the *raw memory* of an `EventDecoder<AnyLayout>` (no `Debug` needed).

use crate::keys::*;
use crate::layouts::any_value;
use pc_keyboard::layouts::AnyLayout;
use pc_keyboard::{DecodedKey, EventDecoder, HandleControl, KeyCode, KeyEvent, KeyState, Keyboard, ScancodeSet2};
use std::mem::ManuallyDrop;

pub type Kb = Keyboard<AnyLayout, ScancodeSet2>;
pub type Dec = EventDecoder<AnyLayout>;

#[inline]
fn fork<T>(x: &T) -> ManuallyDrop<T> {
    // SAFETY: see the module text – T is one of the crate's plain-data stages over AnyLayout (no Drop, no ownership)
    ManuallyDrop::new(unsafe { std::ptr::read(x) })
}

#[derive(Clone, Copy, Debug, PartialEq, Eq)]
pub enum Shape {
    /// LShift down, then RShift down/up alternately: every step has a Shift held
    Shift,
    /// LControl down, then RControl down/up alternately: every step has a Ctrl held
    Ctrl,
    /// NumLock pressed (off), then CapsLock presses: every step has NumLock off
    NumLockCaps,
    /// AltGr down, then CapsLock presses: every step has AltGr held
    AltGrCaps,
    /// LAlt down, then LShift taps
    AltShiftTaps,
    /// Ctrl held and mapping mode at the first press; then set_ctrl_handling(Ignore) n times (counts calls)
    ModeCalls,
    /// Ctrl held and mapping mode at the first press; then Ignore, Map, Ignore … (counts real changes; odd steps differ)
    ModeAlternate,
    /// change_layout(b) n times
    LayoutSame(usize),
    /// change_layout(b), (c), (b) …
    LayoutAlternate(usize, usize),
}

pub const MOD_SHAPES: [Shape; 7] = [Shape::Shift, Shape::Ctrl, Shape::NumLockCaps, Shape::AltGrCaps, Shape::AltShiftTaps, Shape::ModeCalls, Shape::ModeAlternate];

/// One distinct observation: in layout `li`, with the decoder reporting `mods` / `mode`, the press returned `got`
/// (cube encoding, ENC_NONE for None); first seen after `first_step` changes, `times` times in all.
#[derive(Clone, Debug)]
pub struct ForkObs {
    pub li: usize,
    pub mods: u16,
    pub mode: usize,
    pub got: u32,
    pub first_step: u64,
    pub times: u64,
}

pub const ENC_NONE: u32 = 0xFFFF_FFFE;

fn note(out: &mut Vec<ForkObs>, li: usize, mods: u16, mode: usize, got: Option<DecodedKey>, step: u64) {
    let got = got.map(dk_enc).unwrap_or(ENC_NONE);
    for o in out.iter_mut() {
        if o.li == li && o.mods == mods && o.mode == mode && o.got == got {
            o.times += 1;
            return;
        }
    }
    out.push(ForkObs { li, mods, mode, got, first_step: step, times: 1 });
}

/// The modifier / mode shapes on a whole Keyboard (its own report of modifiers and mode is what the caller judges by).
pub fn every_count_mods(li: usize, key: KeyCode, shape: Shape, held: bool, n: u64) -> Vec<ForkObs> {
    let mut kb: Kb = Keyboard::new(ScancodeSet2::new(), any_value(li), HandleControl::MapLettersToUnicode);
    let mut out = Vec::new();
    let ev = |kb: &mut Kb, k: KeyCode, s: KeyState| kb.process_keyevent(KeyEvent::new(k, s));
    if matches!(shape, Shape::ModeCalls | Shape::ModeAlternate) {
        ev(&mut kb, KeyCode::LControl, KeyState::Down);
    }
    for _ in 0..4 {
        let got = ev(&mut kb, key, KeyState::Down);
        note(&mut out, li, bits_from_mods(kb.get_modifiers()), mode_idx(kb.get_ctrl_handling()), got, 0);
    }
    if !held {
        ev(&mut kb, key, KeyState::Up);
    }
    for i in 1..=n {
        let alt = if i % 2 == 0 { KeyState::Down } else { KeyState::Up };
        match shape {
            Shape::Shift => {
                if i == 1 {
                    ev(&mut kb, KeyCode::LShift, KeyState::Down);
                } else {
                    ev(&mut kb, KeyCode::RShift, alt);
                }
            }
            Shape::Ctrl => {
                if i == 1 {
                    ev(&mut kb, KeyCode::LControl, KeyState::Down);
                } else {
                    ev(&mut kb, KeyCode::RControl, alt);
                }
            }
            Shape::NumLockCaps => {
                ev(&mut kb, if i == 1 { KeyCode::NumpadLock } else { KeyCode::CapsLock }, KeyState::Down);
            }
            Shape::AltGrCaps => {
                ev(&mut kb, if i == 1 { KeyCode::RAltGr } else { KeyCode::CapsLock }, KeyState::Down);
            }
            Shape::AltShiftTaps => {
                if i == 1 {
                    ev(&mut kb, KeyCode::LAlt, KeyState::Down);
                } else {
                    ev(&mut kb, KeyCode::LShift, alt);
                }
            }
            Shape::ModeCalls => kb.set_ctrl_handling(HandleControl::Ignore),
            Shape::ModeAlternate => kb.set_ctrl_handling(MODES[(i % 2) as usize]),
            _ => {}
        }
        let mut f = fork(&kb);
        let got = f.process_keyevent(KeyEvent::new(key, KeyState::Down));
        note(&mut out, li, bits_from_mods(f.get_modifiers()), mode_idx(f.get_ctrl_handling()), got, i);
    }
    out
}

/// The change_layout shapes on an EventDecoder<AnyLayout>: no modifier event is ever sent, so the state is the
/// constructor's (NumLock on, nothing held) in the given mode.
pub fn every_count_layouts(a: usize, key: KeyCode, shape: Shape, held: bool, mode: usize, n: u64) -> Vec<ForkObs> {
    let mut dec: Dec = EventDecoder::new(any_value(a), MODES[mode]);
    let mut out = Vec::new();
    for _ in 0..4 {
        let got = dec.process_keyevent(KeyEvent::new(key, KeyState::Down));
        note(&mut out, a, B_NUMLOCK, mode, got, 0);
    }
    if !held {
        dec.process_keyevent(KeyEvent::new(key, KeyState::Up));
    }
    for i in 1..=n {
        let cur = match shape {
            Shape::LayoutSame(b) => b,
            Shape::LayoutAlternate(b, c) => {
                if i % 2 == 1 {
                    b
                } else {
                    c
                }
            }
            _ => a,
        };
        dec.change_layout(any_value(cur));
        let mut f = fork(&dec);
        let got = f.process_keyevent(KeyEvent::new(key, KeyState::Down));
        note(&mut out, cur, B_NUMLOCK, mode, got, i);
    }
    out
}

/// Raw-memory fingerprints of an EventDecoder<AnyLayout> after one press: (granularity, offset, value) of every aligned
/// 2-, 4- and 8-byte word of the object.  Padding may hold anything; that only costs useless pairs, never a verdict.
fn raw_words(dec: &Dec, out: &mut Vec<(u8, u16, u64)>) {
    let size = std::mem::size_of::<Dec>();
    let base = dec as *const Dec as *const u8;
    for g in [2usize, 4, 8] {
        let mut off = 0;
        while off + g <= size {
            let mut v = 0u64;
            for b in 0..g {
                // SAFETY: inside the object; read as raw bytes, volatile so that nothing is assumed about their content
                v |= (unsafe { std::ptr::read_volatile(base.add(off + b)) } as u64) << (8 * b);
            }
            out.push((g as u8, off as u16, v));
            off += g;
        }
    }
}

pub struct RawPair {
    pub first: (usize, u16, usize),
    pub second: (usize, u16, usize),
    pub got: Option<DecodedKey>,
    /// what an EventDecoder over the bare layout returned for the same operations
    pub bare: Option<DecodedKey>,
}

fn goto_mods_dec<L: pc_keyboard::KeyboardLayout>(dec: &mut EventDecoder<L>, cur: &mut u16, target: u16) {
    let mut ev = |k: KeyCode, s: KeyState| {
        let _ = dec.process_keyevent(KeyEvent::new(k, s));
    };
    if (*cur ^ target) & B_NUMLOCK != 0 {
        if *cur & B_RCTRL2 != 0 {
            ev(KeyCode::RControl2, KeyState::Up);
            *cur &= !B_RCTRL2;
        }
        ev(KeyCode::NumpadLock, KeyState::Down);
    }
    if (*cur ^ target) & B_CAPSLOCK != 0 {
        ev(KeyCode::CapsLock, KeyState::Down);
    }
    for (bit, key) in [(B_LSHIFT, KeyCode::LShift), (B_RSHIFT, KeyCode::RShift), (B_LCTRL, KeyCode::LControl), (B_RCTRL, KeyCode::RControl), (B_LALT, KeyCode::LAlt), (B_RALT, KeyCode::RAltGr), (B_RCTRL2, KeyCode::RControl2)] {
        if (*cur ^ target) & bit != 0 {
            ev(key, if target & bit != 0 { KeyState::Down } else { KeyState::Up });
        }
    }
    *cur = target;
}

/// Every (key, 512 modifier sets, mode) is pressed on a fresh EventDecoder<AnyLayout>; inputs that leave some word of the
/// object's memory equal although they differ are then pressed back to back (first input, modifier events only, second
/// input).  Returns what the second press gave; the modifier state of the second press is the one it was driven to by
/// modifier events from the constructor's state (the record itself is C04's matter).
pub fn raw_collision_pairs(li: usize, keys: &[KeyCode], limit: usize) -> (Vec<RawPair>, u64, u64) {
    use std::collections::hash_map::DefaultHasher;
    use std::hash::{Hash, Hasher};
    let plain: Vec<usize> = (0..keys.len()).filter(|i| !MOD_KEYS.contains(&keys[*i])).collect();
    let decode = |n: u32| -> (usize, u16, usize) { (plain[(n >> 10) as usize], (n & 511) as u16, ((n >> 9) & 1) as usize) };
    let total = (plain.len() as u32) << 10;
    let mut vals: Vec<(u64, u32)> = Vec::new();
    let mut words = Vec::new();
    let mut fingerprinted = 0u64;
    for n in 0..total {
        let (ki, m, mode) = decode(n);
        let mut dec: Dec = EventDecoder::new(any_value(li), MODES[mode]);
        let mut cur = B_NUMLOCK;
        goto_mods_dec(&mut dec, &mut cur, m);
        let _ = dec.process_keyevent(KeyEvent::new(keys[ki], KeyState::Down));
        words.clear();
        raw_words(&dec, &mut words);
        fingerprinted += 1;
        for w in &words {
            let mut h = DefaultHasher::new();
            w.hash(&mut h);
            vals.push((h.finish(), n));
        }
    }
    // a word that is the same after (nearly) every input says nothing: drop values shared by more than 64 inputs
    vals.sort_unstable();
    let mut kept: Vec<(u64, u32)> = Vec::new();
    let mut i = 0;
    while i < vals.len() {
        let mut j = i;
        while j < vals.len() && vals[j].0 == vals[i].0 {
            j += 1;
        }
        if j - i >= 2 && j - i <= 64 {
            kept.extend_from_slice(&vals[i..j]);
        }
        i = j;
    }
    drop(vals);
    let mut pairs = std::collections::BTreeSet::new();
    crate::hidden::colliding_pairs(&mut kept, 8, &mut pairs, limit);
    let mut out = Vec::new();
    for (x, y) in pairs.iter() {
        let (fx, fy) = (decode(*x), decode(*y));
        let mut dec: Dec = EventDecoder::new(any_value(li), MODES[fx.2]);
        let mut cur = B_NUMLOCK;
        goto_mods_dec(&mut dec, &mut cur, fx.1);
        let _ = dec.process_keyevent(KeyEvent::new(keys[fx.0], KeyState::Down));
        dec.set_ctrl_handling(MODES[fy.2]);
        goto_mods_dec(&mut dec, &mut cur, fy.1);
        let got = dec.process_keyevent(KeyEvent::new(keys[fy.0], KeyState::Down));
        // the same operations on a decoder over the bare layout
        let mut bd = EventDecoder::new(crate::layouts::dyn_layout(li, 0), MODES[fx.2]);
        let mut cur = B_NUMLOCK;
        goto_mods_dec(&mut bd, &mut cur, fx.1);
        let _ = bd.process_keyevent(KeyEvent::new(keys[fx.0], KeyState::Down));
        bd.set_ctrl_handling(MODES[fy.2]);
        goto_mods_dec(&mut bd, &mut cur, fy.1);
        let bare = bd.process_keyevent(KeyEvent::new(keys[fy.0], KeyState::Down));
        out.push(RawPair { first: fx, second: fy, got, bare });
    }
    (out, fingerprinted, pairs.len() as u64)
}

/// One remembered look-up, then d = 1..n change_layout calls; after every d, on throw-away duplicates: the modifier set
/// `mods` is pressed and EVERY key is pressed once.  A remembered look-up whose stamp mixes a generation count with the
/// input (so that a *different* input matches d generations later) is met at that d.  Returns the distinct
/// (layout, key index, got) observations with the first d at which each was seen; modifiers and mode are the ones driven.
pub fn layout_distance_probe(a: usize, b: usize, first: KeyCode, first_numlock_off: bool, mods: u16, mode: usize, keys: &[KeyCode], n: u64) -> Vec<(usize, usize, u32, u64)> {
    let mut dec: Dec = EventDecoder::new(any_value(a), MODES[mode]);
    let mut cur = B_NUMLOCK;
    if first_numlock_off {
        goto_mods_dec(&mut dec, &mut cur, 0);
    }
    let _ = dec.process_keyevent(KeyEvent::new(first, KeyState::Down));
    let _ = dec.process_keyevent(KeyEvent::new(first, KeyState::Up));
    let target = if first_numlock_off { mods & !B_NUMLOCK } else { mods | B_NUMLOCK };
    let mut seen: std::collections::HashMap<(usize, usize, u32), u64> = std::collections::HashMap::new();
    for d in 1..=n {
        let li = if d % 2 == 1 { b } else { a };
        dec.change_layout(any_value(li));
        let mut f = fork(&dec);
        let mut c = cur;
        goto_mods_dec(&mut *f, &mut c, target);
        for (ki, k) in keys.iter().enumerate() {
            if MOD_KEYS.contains(k) {
                continue;
            }
            let mut f2 = fork(&*f);
            let got = f2.process_keyevent(KeyEvent::new(*k, KeyState::Down)).map(dk_enc).unwrap_or(ENC_NONE);
            seen.entry((li, ki, got)).or_insert(d);
        }
    }
    let _ = target;
    seen.into_iter().map(|((li, ki, got), d)| (li, ki, got, d)).collect()
}
