//! Registry of the 30 layout objects (10 layouts × {bare, AnyLayout by value, &AnyLayout}),
//! plus harness layouts: a `Debug` wrapper and a recording layout.

use pc_keyboard::layouts::*;
use pc_keyboard::{DecodedKey, HandleControl, KeyCode, KeyboardLayout, Modifiers};
use std::cell::RefCell;
use std::rc::Rc;

pub const LAYOUT_NAMES: [&str; 10] = [
    "Us104Key",
    "Uk105Key",
    "De105Key",
    "Azerty",
    "No105Key",
    "FiSe105Key",
    "Jis109Key",
    "Colemak",
    "Dvorak104Key",
    "DVP104Key",
];
pub const FORM_NAMES: [&str; 3] = ["bare", "any", "anyref"];

include!(concat!(env!("OUT_DIR"), "/extra_layouts.rs"));

/// the ten layouts known by name plus whatever else the tree ships (see build.rs)
pub fn n_layouts() -> usize {
    10 + extra_layout_names().len()
}
pub fn layout_name(li: usize) -> &'static str {
    if li < 10 {
        LAYOUT_NAMES[li]
    } else {
        extra_layout_names()[li - 10]
    }
}

/// `&AnyLayout` form without a `'static` (a `static AnyLayout` would make the whole harness depend on
/// `AnyLayout: Sync`, which is C20's business, not every monitor's): owns the wrapper and calls the
/// by-reference impl `<&AnyLayout as KeyboardLayout>::map_keycode`.
pub struct ByRef(pub AnyLayout);
impl KeyboardLayout for ByRef {
    fn map_keycode(&self, k: KeyCode, m: &Modifiers, h: HandleControl) -> DecodedKey {
        let r: &AnyLayout = &self.0;
        <&AnyLayout as KeyboardLayout>::map_keycode(&r, k, m, h)
    }
}

pub fn any_value(li: usize) -> AnyLayout {
    match li {
        0 => AnyLayout::Us104Key(Us104Key),
        1 => AnyLayout::Uk105Key(Uk105Key),
        2 => AnyLayout::De105Key(De105Key),
        3 => AnyLayout::Azerty(Azerty),
        4 => AnyLayout::No105Key(No105Key),
        5 => AnyLayout::FiSe105Key(FiSe105Key),
        6 => AnyLayout::Jis109Key(Jis109Key),
        7 => AnyLayout::Colemak(Colemak),
        8 => AnyLayout::Dvorak104Key(Dvorak104Key),
        9 => AnyLayout::DVP104Key(DVP104Key),
        _ => panic!("layout index"),
    }
}

pub fn bare_dyn(li: usize) -> Box<dyn KeyboardLayout> {
    match li {
        0 => Box::new(Us104Key),
        1 => Box::new(Uk105Key),
        2 => Box::new(De105Key),
        3 => Box::new(Azerty),
        4 => Box::new(No105Key),
        5 => Box::new(FiSe105Key),
        6 => Box::new(Jis109Key),
        7 => Box::new(Colemak),
        8 => Box::new(Dvorak104Key),
        9 => Box::new(DVP104Key),
        _ => panic!("layout index"),
    }
}

/// form: 0 = the layout type itself, 1 = `AnyLayout` by value, 2 = `&AnyLayout`
pub fn layout_obj(li: usize, form: usize) -> Box<dyn KeyboardLayout> {
    if li >= 10 {
        // a layout beyond the ten known ones: only the bare form exists for the harness (it may not be in AnyLayout)
        return extra_layout(li - 10);
    }
    match form {
        0 => bare_dyn(li),
        1 => Box::new(any_value(li)),
        2 => Box::new(ByRef(any_value(li))),
        _ => panic!("form"),
    }
}

pub fn layout_index(name: &str) -> Option<usize> {
    (0..n_layouts()).find(|li| layout_name(*li) == name)
}

/// Run `$body` with `$L` bound to each concrete layout type value in turn (typed instantiation
/// of the crate's generics, as a user would write them).
#[macro_export]
macro_rules! with_layout {
    ($li:expr, $l:ident => $body:expr) => {{
        use pc_keyboard::layouts::*;
        match $li {
            0 => {
                let $l = Us104Key;
                $body
            }
            1 => {
                let $l = Uk105Key;
                $body
            }
            2 => {
                let $l = De105Key;
                $body
            }
            3 => {
                let $l = Azerty;
                $body
            }
            4 => {
                let $l = No105Key;
                $body
            }
            5 => {
                let $l = FiSe105Key;
                $body
            }
            6 => {
                let $l = Jis109Key;
                $body
            }
            7 => {
                let $l = Colemak;
                $body
            }
            8 => {
                let $l = Dvorak104Key;
                $body
            }
            9 => {
                let $l = DVP104Key;
                $body
            }
            _ => panic!("layout index"),
        }
    }};
}

// ------------------------------------------------------------------ harness layouts

/// Makes any layout `Debug` (so that `Keyboard<Dbg<L>, S>` and `EventDecoder<Dbg<L>>` render).
pub struct Dbg<L: KeyboardLayout>(pub L, pub &'static str);
impl<L: KeyboardLayout> std::fmt::Debug for Dbg<L> {
    fn fmt(&self, f: &mut std::fmt::Formatter<'_>) -> std::fmt::Result {
        f.write_str(self.1)
    }
}
impl<L: KeyboardLayout> KeyboardLayout for Dbg<L> {
    fn map_keycode(&self, k: KeyCode, m: &Modifiers, h: HandleControl) -> DecodedKey {
        self.0.map_keycode(k, m, h)
    }
}

/// Boxed dynamic layout as a `KeyboardLayout` + `Debug` (one generic instantiation for all 30 objects).
pub struct DynLayout(pub Box<dyn KeyboardLayout>, pub String);
impl std::fmt::Debug for DynLayout {
    fn fmt(&self, f: &mut std::fmt::Formatter<'_>) -> std::fmt::Result {
        f.write_str(&self.1)
    }
}
impl KeyboardLayout for DynLayout {
    fn map_keycode(&self, k: KeyCode, m: &Modifiers, h: HandleControl) -> DecodedKey {
        self.0.map_keycode(k, m, h)
    }
}
pub fn dyn_layout(li: usize, form: usize) -> DynLayout {
    DynLayout(layout_obj(li, form), format!("{}/{}", layout_name(li), FORM_NAMES[form]))
}

/// One call received by a recording layout.
#[derive(Clone, Debug, PartialEq, Eq)]
pub struct RecCall {
    pub instance: u32,
    pub key: KeyCode,
    pub mods: u16,
    pub mode: HandleControl,
    pub token: u32,
}

#[derive(Default)]
pub struct RecLog {
    pub calls: Vec<RecCall>,
    pub next_token: u32,
}

/// Recording layout: logs every consultation and answers with a unique token
/// `Unicode(U+F0000 + n)` so an output identifies the exact call that produced it.
pub struct RecLayout {
    pub instance: u32,
    pub log: Rc<RefCell<RecLog>>,
}
impl std::fmt::Debug for RecLayout {
    fn fmt(&self, f: &mut std::fmt::Formatter<'_>) -> std::fmt::Result {
        { let _ = self.instance; f.write_str("Rec") }
    }
}
pub const TOKEN_BASE: u32 = 0xF0000;
pub const TOKEN_SPAN: u32 = 0xFFFD; // stay inside plane 15 private use
impl KeyboardLayout for RecLayout {
    fn map_keycode(&self, k: KeyCode, m: &Modifiers, h: HandleControl) -> DecodedKey {
        let mut log = self.log.borrow_mut();
        let token = log.next_token;
        log.next_token = (log.next_token + 1) % TOKEN_SPAN;
        log.calls.push(RecCall {
            instance: self.instance,
            key: k,
            mods: crate::keys::bits_from_mods(m),
            mode: h,
            token,
        });
        DecodedKey::Unicode(char::from_u32(TOKEN_BASE + token).unwrap())
    }
}
pub fn rec_layout(instance: u32) -> (RecLayout, Rc<RefCell<RecLog>>) {
    let log = Rc::new(RefCell::new(RecLog::default()));
    (
        RecLayout {
            instance,
            log: log.clone(),
        },
        log,
    )
}

/// A layout that cannot fail: used where the layout's content is irrelevant to the property (C04),
/// so that a defect inside a real layout is not reported under the wrong property.
#[derive(Debug)]
pub struct NullLayout;
impl KeyboardLayout for NullLayout {
    fn map_keycode(&self, k: KeyCode, _m: &Modifiers, _h: HandleControl) -> DecodedKey {
        DecodedKey::RawKey(k)
    }
}

/// A user-defined layout that answers with arbitrary decoded keys (a deterministic function of its inputs): characters
/// of every kind and raw keys of every kind – including the modifier and lock keys themselves.  The decoder must pass
/// whatever the installed layout returns through untouched, and nothing a layout returns may change the modifier record.
#[derive(Debug, Clone, Copy, Default)]
pub struct AdvLayout;
impl KeyboardLayout for AdvLayout {
    fn map_keycode(&self, k: KeyCode, m: &Modifiers, h: HandleControl) -> DecodedKey {
        let mut x = (k as u8 as u64) << 16 | (crate::keys::bits_from_mods(m) as u64) << 1 | (h == HandleControl::Ignore) as u64;
        x = (x ^ (x >> 7)).wrapping_mul(0x9E37_79B9_7F4A_7C15);
        x ^= x >> 29;
        match x % 3 {
            0 => DecodedKey::RawKey(crate::keys::NAMED_KEYS[(x >> 8) as usize % crate::keys::NAMED_KEYS.len()]),
            1 => DecodedKey::RawKey(crate::keys::MOD_KEYS[(x >> 8) as usize % crate::keys::MOD_KEYS.len()]),
            _ => DecodedKey::Unicode(char::from_u32(0x20 + ((x >> 8) % 0x2F00) as u32).unwrap_or('?')),
        }
    }
}
