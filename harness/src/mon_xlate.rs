//! C13 — Set 1 and Set 2 decode consistently under the i8042 translation.
//!
//! Relational oracle through refs/i8042_xlate.tsv only: both *real* decoders are run on paired
//! sequences; no key table is consulted.

use crate::json::J;
use crate::keys::*;
use crate::layouts::*;
use crate::model::*;
use crate::refs::{ScanRef, Xlate, RefKey};
use crate::report::*;
use crate::rng::Rng;
use crate::scan::*;
use pc_keyboard::{HandleControl, KeyCode, KeyState, Keyboard, ScancodeSet1, ScancodeSet2};
use std::collections::BTreeSet;

const CTX: [(&str, &[u8]); 3] = [("plain", &[]), ("e0", &[0xE0]), ("e1", &[0xE1])];

fn dec<D: Dec>(seq: &[u8]) -> Result<Res, String> {
    guarded(|| {
        let mut d = D::fresh();
        let mut last = Ok(None);
        for b in seq {
            last = d.advance_state(*b);
        }
        last
    })
}

fn rstr(r: &Result<Res, String>) -> String {
    match r {
        Ok(r) => res_str(r),
        Err(p) => format!("PANIC({})", panic_sig(p)),
    }
}

fn replay(s2: &[u8], s1: &[u8], expected: &str, got: &str) -> J {
    J::obj()
        .with("kind", J::s("xlate-pair"))
        .with("set2_bytes", J::Arr(s2.iter().map(|b| J::u(*b as u64)).collect()))
        .with("set1_bytes", J::Arr(s1.iter().map(|b| J::u(*b as u64)).collect()))
        .with("set2_hex", J::s(hex_bytes(s2)))
        .with("set1_hex", J::s(hex_bytes(s1)))
        .with("expected_last", J::s(expected))
        .with("observed_last", J::s(got))
}

fn fwd_sig(cname: &str, c: u8, brk: bool, r2: &str, s1: &[u8], r1: &str) -> String {
    format!(
        "C13|fwd|ctx={}|set2=0x{:02X}|{}|set2→{}|set1[{}]→{}",
        cname,
        c,
        if brk { "break" } else { "make" },
        r2,
        hex_bytes(s1),
        r1
    )
}

pub fn run(rep: &mut Report) {
    let x = Xlate::load();
    rep.assumptions.push("refs/i8042_xlate.tsv is the controller's standard Set 2→Set 1 table (Brouwer, Keyboard scancodes §10): prefixes pass through, F0+code becomes code|0x80".into());
    let translatable: Vec<u8> = (0..=255u8).filter(|c| x.map[*c as usize].is_some()).collect();
    rep.count("set2_codes_with_translation", translatable.len() as u64);

    // which keys can Set 2 express at all (observed from the real decoder)
    let mut set2_keys: BTreeSet<KeyCode> = BTreeSet::new();
    for (_, p) in CTX.iter() {
        for c in 0..=255u8 {
            let mut s = p.to_vec();
            s.push(c);
            if let Ok(Ok(Some(e))) = dec::<ScancodeSet2>(&s) {
                set2_keys.insert(e.code);
            }
        }
    }
    let mut agree_pairs: BTreeSet<(usize, u8, bool)> = BTreeSet::new();

    // ---------------------------------------------------------------- forward
    for (ci, (cname, prefix)) in CTX.iter().enumerate() {
        for &c in &translatable {
            let t = x.map[c as usize].unwrap();
            for brk in [false, true] {
                let mut s2 = prefix.to_vec();
                if brk {
                    s2.push(0xF0);
                }
                s2.push(c);
                let mut s1 = prefix.to_vec();
                s1.push(if brk { t | 0x80 } else { t });
                let r2 = dec::<ScancodeSet2>(&s2);
                let r1 = dec::<ScancodeSet1>(&s1);
                rep.evaluations += 1;
                if r2.is_err() || r1.is_err() {
                    rep.panics += 1;
                }
                if let Ok(Ok(Some(e2))) = &r2 {
                    let same = matches!(&r1, Ok(Ok(Some(e1))) if e1 == e2);
                    if same {
                        agree_pairs.insert((ci, c, brk));
                        if agree_pairs.len() % 41 == 7 {
                            rep.sample_str(format!("Set 2 [{}] → {}  ≡  Set 1 [{}] → {}", hex_bytes(&s2), ev_str(e2), hex_bytes(&s1), rstr(&r1)));
                        }
                    } else {
                        rep.violate(
                            fwd_sig(cname, c, brk, &rstr(&r2), &s1, &rstr(&r1)),
                            format!(
                                "Set 2 [{}] decodes to {}, but the i8042 translation of it, Set 1 [{}], decodes to {}",
                                hex_bytes(&s2),
                                rstr(&r2),
                                hex_bytes(&s1),
                                rstr(&r1)
                            ),
                            replay(&s2, &s1, &rstr(&r2), &rstr(&r1)),
                        );
                    }
                }
            }
        }
    }
    rep.count("forward_pairs_agreeing", agree_pairs.len() as u64);

    // ---------------------------------------------------------------- forward, after controller traffic: the bytes a keyboard sends that are
    //      not scancodes (ACK, resend, echo, self-test results, overrun) arrive identically whichever set is in use; a pair that
    //      agrees from fresh decoders must agree after them as well
    {
        const CTL: [u8; 8] = [0xFA, 0xFE, 0xEE, 0xAA, 0xFC, 0xFD, 0x00, 0xFF];
        let mut hists: Vec<Vec<u8>> = CTL.iter().map(|b| vec![*b]).collect();
        for a in CTL {
            for b in CTL {
                hists.push(vec![a, b]);
            }
        }
        // whole reply transcripts of a driver's initialisation: reset (FA AA), a two-byte command such as "select set" or
        // "set LEDs" (FA FA), a one-byte command such as "disable scanning" (FA), identify (FA AB, the 83 that follows is a
        // scancode to both decoders), echo, resend, a hot-plugged keyboard's AA – every sequence of up to four replies before
        // every pair, of five before the unprefixed makes
        let n_short = hists.len();
        {
            const REPLIES: [&[u8]; 7] = [&[0xFA, 0xAA], &[0xFA, 0xFA], &[0xFA], &[0xFA, 0xAB], &[0xEE], &[0xFE], &[0xAA]];
            let mut level: Vec<Vec<u8>> = vec![vec![]];
            for depth in 1..=5 {
                let mut next = Vec::new();
                for h in level.iter() {
                    for r in REPLIES {
                        let mut v = h.clone();
                        v.extend_from_slice(r);
                        next.push(v);
                    }
                }
                if depth >= 2 {
                    hists.extend(next.iter().cloned());
                }
                level = next;
            }
        }
        let n_upto4 = n_short + 49 + 343 + 2401;
        let mut after_hist = 0u64;
        for (hi, h) in hists.iter().enumerate() {
            for (ci, (cname, prefix)) in CTX.iter().enumerate() {
                if hi >= n_upto4 && ci != 0 {
                    continue;
                }
                for &c in &translatable {
                    let t = x.map[c as usize].unwrap();
                    for brk in [false, true] {
                        if !agree_pairs.contains(&(ci, c, brk)) || (hi >= n_upto4 && brk) {
                            continue;
                        }
                        let mut s2 = h.clone();
                        s2.extend(prefix.iter());
                        if brk {
                            s2.push(0xF0);
                        }
                        s2.push(c);
                        let mut s1 = h.clone();
                        s1.extend(prefix.iter());
                        s1.push(if brk { t | 0x80 } else { t });
                        let r2 = dec::<ScancodeSet2>(&s2);
                        let r1 = dec::<ScancodeSet1>(&s1);
                        rep.evaluations += 1;
                        after_hist += 1;
                        let same = match (&r2, &r1) {
                            (Ok(a), Ok(b)) => a == b,
                            _ => true, // a panic is C08's matter
                        };
                        if !same {
                            rep.violate(
                                format!("{}|after=[{}]", fwd_sig(cname, c, brk, &rstr(&r2), &s1[h.len()..], &rstr(&r1)), hex_bytes(h)),
                                format!(
                                    "after the controller bytes [{}]: Set 2 [{}] decodes to {}, but the i8042 translation of it, Set 1 [{}], decodes to {} (from fresh decoders the two agree)",
                                    hex_bytes(h),
                                    hex_bytes(&s2[h.len()..]),
                                    rstr(&r2),
                                    hex_bytes(&s1[h.len()..]),
                                    rstr(&r1)
                                ),
                                replay(&s2, &s1, &rstr(&r2), &rstr(&r1)),
                            );
                        }
                    }
                }
            }
        }
        rep.count("forward_pairs_compared_after_controller_bytes", after_hist);
    }

    // ---------------------------------------------------------------- converse
    let mut conv_checked = 0u64;
    for (_ci, (cname, prefix)) in CTX.iter().enumerate() {
        for s in 0..128u8 {
            for brk in [false, true] {
                let mut s1 = prefix.to_vec();
                s1.push(if brk { s | 0x80 } else { s });
                let r1 = dec::<ScancodeSet1>(&s1);
                rep.evaluations += 1;
                let Ok(Ok(Some(e1))) = &r1 else { continue };
                if (e1.state == KeyState::Up) != brk {
                    continue;
                }
                conv_checked += 1;
                let pre = x.preimages(s);
                let mut some_same = false;
                for c in &pre {
                    let mut s2 = prefix.to_vec();
                    if brk {
                        s2.push(0xF0);
                    }
                    s2.push(*c);
                    let r2 = dec::<ScancodeSet2>(&s2);
                    if let Ok(Ok(Some(e2))) = &r2 {
                        if e2 == e1 {
                            some_same = true;
                        } else if e2.code != e1.code {
                            rep.violate(
                                format!(
                                    "C13|conv|ctx={}|set1=0x{:02X}|{}|set1→{}|set2[{}]→{}",
                                    cname,
                                    s,
                                    if brk { "break" } else { "make" },
                                    rstr(&r1),
                                    hex_bytes(&s2),
                                    rstr(&r2)
                                ),
                                format!(
                                    "Set 1 [{}] decodes to {}, but its Set 2 pre-image [{}] decodes to a different key: {}",
                                    hex_bytes(&s1),
                                    rstr(&r1),
                                    hex_bytes(&s2),
                                    rstr(&r2)
                                ),
                                replay(&s2, &s1, &rstr(&r1), &rstr(&r2)),
                            );
                        }
                    }
                }
                if !some_same && set2_keys.contains(&e1.code) {
                    rep.violate(
                        format!(
                            "C13|conv|ctx={}|set1=0x{:02X}|{}|set1→{}|no-set2-preimage-decodes-to-it",
                            cname,
                            s,
                            if brk { "break" } else { "make" },
                            rstr(&r1)
                        ),
                        format!(
                            "Set 1 [{}] decodes to {}; Set 2 can express that key, but none of the Set 2 sequences that translate to these bytes ({:02X?} in context {}) decodes to it",
                            hex_bytes(&s1),
                            rstr(&r1),
                            pre,
                            cname
                        ),
                        replay(&[], &s1, &rstr(&r1), "no pre-image"),
                    );
                }
            }
        }
    }
    rep.count("converse_set1_events_checked", conv_checked);

    // ---------------------------------------------------------------- end to end
    end_to_end(rep, &x);

    rep.distinct_nontrivial = agree_pairs.len() as u64;
    rep.exhaustive = Some(true);
    rep.rule = "forward: 3 prefix contexts × every Set 2 code with a translation × {make, break} through both real decoders; converse: every Set 1 event against all its Set 2 pre-images; \
                end-to-end: well-formed typing sessions fed raw to Keyboard<L,Set2> and through a streaming controller model to Keyboard<L,Set1>, comparing events, modifier records and decoded keys; \
                distinct_nontrivial = distinct (context, code, make/break) pairs on which Set 2 produced a key event and Set 1 produced the identical one"
        .into();
    rep.require("agreeing forward pairs", agree_pairs.len() as u64, 100);
}

/// A `ScanRef`-shaped table read off the *real* Set 2 decoder (so the typist is reference-free).
fn observed_set2() -> ScanRef {
    let mut table = [[None; 256]; 3];
    let mut entries = 0;
    for (ci, (_, p)) in CTX.iter().enumerate() {
        for c in 0..=255u8 {
            let mut s = p.to_vec();
            s.push(c);
            if let Ok(Ok(Some(e))) = dec::<ScancodeSet2>(&s) {
                if e.state == KeyState::Down {
                    table[ci][c as usize] = Some(RefKey { key: e.code, oneshot: false });
                    entries += 1;
                }
            }
        }
    }
    ScanRef { table, entries }
}

fn end_to_end(rep: &mut Report, x: &Xlate) {
    let obs = observed_set2();
    let threads = n_threads();
    let (sessions, len) = if rep.thorough() { (60_000usize, 400usize) } else { (1_500, 200) };
    let seed = rep.seed;
    let xmap = x.map;
    let shards = par_map(threads, move |t| {
        let x = Xlate { map: xmap };
        let obs = observed_set2();
        let typist = Typist::new(2, &obs);
        let mut out: Vec<(String, String, J)> = Vec::new();
        let (mut bytes, mut events, mut chars, mut sess, mut untranslatable) = (0u64, 0u64, 0u64, 0u64, 0u64);
        let mut aborted = 0u64;
        let mut sample = None;
        let mut s = t;
        while s < sessions {
            let mut rng = Rng::fork(seed, (s as u64) << 8 | 0x13);
            let li = s % 10;
            let stream = if s % 4 == 3 { typist.typematic_runs(&mut rng, len * 4) } else { typist.typing(&mut rng, len) };
            let r = guarded(|| {
                let mut k2: Keyboard<DynLayout, ScancodeSet2> = Keyboard::new(ScancodeSet2::new(), dyn_layout(li, 0), HandleControl::MapLettersToUnicode);
                let mut k1: Keyboard<DynLayout, ScancodeSet1> = Keyboard::new(ScancodeSet1::new(), dyn_layout(li, 0), HandleControl::MapLettersToUnicode);
                let mut ctl = I8042::new();
                let mut ctx = Ctx2::default();
                let mut seq2: Vec<u8> = Vec::new();
                let mut seq1: Vec<u8> = Vec::new();
                let mut viol = Vec::new();
                let (mut ev_n, mut ch_n, mut untr) = (0u64, 0u64, 0u64);
                let mut typed = String::new();
                for b in stream.iter() {
                    let c0 = ctx;
                    // track the Set 2 sequence structure only to *name* a divergence
                    let _ = set2_step(&obs, &mut ctx, *b);
                    seq2.push(*b);
                    let r2 = k2.add_byte(*b);
                    let tb = ctl.feed(&x, *b);
                    let r1 = match tb {
                        Some(tb) => {
                            seq1.push(tb);
                            k1.add_byte(tb)
                        }
                        None => {
                            if *b != 0xF0 {
                                untr += 1;
                            }
                            Ok(None)
                        }
                    };
                    if matches!(r2, Ok(None)) && matches!(r1, Ok(None)) {
                        continue;
                    }
                    let is_status = *b == 0x00 || *b == 0xAA;
                    if r2 != r1 && !(is_status && tb.is_none()) {
                        let cname = ["plain", "e0", "e1"][c0.ext as usize];
                        viol.push((
                            fwd_sig(cname, *b, c0.rel, &res_str(&r2), &seq1, &res_str(&r1)),
                            format!(
                                "typing session (layout {}): Set 2 [{}] gave {} but the translated Set 1 bytes [{}] gave {}",
                                LAYOUT_NAMES[li],
                                hex_bytes(&seq2),
                                res_str(&r2),
                                hex_bytes(&seq1),
                                res_str(&r1)
                            ),
                            replay(&seq2, &seq1, &res_str(&r2), &res_str(&r1)),
                        ));
                        // resynchronise both sides on fresh objects
                        k2 = Keyboard::new(ScancodeSet2::new(), dyn_layout(li, 0), HandleControl::MapLettersToUnicode);
                        k1 = Keyboard::new(ScancodeSet1::new(), dyn_layout(li, 0), HandleControl::MapLettersToUnicode);
                        ctl = I8042::new();
                        ctx = Ctx2::default();
                        seq2.clear();
                        seq1.clear();
                        continue;
                    }
                    seq2.clear();
                    seq1.clear();
                    if let (Ok(Some(e2)), Ok(Some(e1))) = (r2, r1) {
                        ev_n += 1;
                        let d2 = k2.process_keyevent(e2);
                        let d1 = k1.process_keyevent(e1);
                        let m2 = bits_from_mods(k2.get_modifiers());
                        let m1 = bits_from_mods(k1.get_modifiers());
                        if let Some(pc_keyboard::DecodedKey::Unicode(c)) = d2 {
                            ch_n += 1;
                            if typed.chars().count() < 40 && !c.is_control() {
                                typed.push(c);
                            }
                        }
                        if d2 != d1 || m2 != m1 {
                            viol.push((
                                format!("C13|e2e-upper-layer|{}|{}|{}|{}", odk_str(&d2), odk_str(&d1), mods_str(m2), mods_str(m1)),
                                format!("identical events gave different decoded keys / modifiers on the two keyboards: {} {} vs {} {}", odk_str(&d2), mods_str(m2), odk_str(&d1), mods_str(m1)),
                                J::Null,
                            ));
                        }
                    }
                }
                (viol, ev_n, ch_n, untr, typed)
            });
            match r {
                Ok((viol, ev_n, ch_n, untr, typed)) => {
                    events += ev_n;
                    chars += ch_n;
                    untranslatable += untr;
                    if sample.is_none() && viol.is_empty() && typed.len() > 10 {
                        sample = Some(format!(
                            "session of {} Set 2 bytes on {} typed “{}…” identically through both sets ({} events)",
                            stream.len(),
                            LAYOUT_NAMES[li],
                            typed,
                            ev_n
                        ));
                    }
                    out.extend(viol);
                }
                // a panic above the scancode layer hits both keyboards alike: not a Set 1 / Set 2 disagreement (C08 reports it)
                Err(_p) => aborted += 1,
            }
            bytes += stream.len() as u64;
            sess += 1;
            s += threads;
        }
        (out, bytes, events, chars, sess, untranslatable, sample, aborted)
    });
    let _ = obs;
    for (viol, bytes, events, chars, sess, untr, sample, aborted) in shards {
        rep.count("e2e_sessions_aborted_by_a_panic_above_the_scancode_layer", aborted);
        for (a, b, c) in viol {
            rep.violate(a, b, c);
        }
        rep.evaluations += events;
        rep.count("e2e_set2_bytes_typed", bytes);
        rep.count("e2e_events_compared", events);
        rep.count("e2e_characters_compared", chars);
        rep.count("e2e_sessions", sess);
        rep.count("e2e_bytes_without_translation(status codes)", untr);
        if let Some(s) = sample {
            rep.sample_str(s);
        }
    }
}
