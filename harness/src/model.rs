//! Executable reference models written from the property statements (not from the crate's code).

use crate::keys::*;
use crate::refs::{ScanRef, Xlate};
use pc_keyboard::{Error, KeyCode, KeyEvent, KeyState};

// ------------------------------------------------------------------ PS/2 frame rule (C05)

#[derive(Clone, Copy, Debug, PartialEq, Eq)]
pub enum FrameVerdict {
    Data(u8),
    BadStart,
    BadStop,
    Parity,
}

/// start = bit 0 must be 0; data bits 1..8 LSB first; parity bit 9 (odd over data+parity);
/// stop = bit 10 must be 1.  Error priority: start, then stop, then parity.
pub fn frame_rule(word: u16) -> FrameVerdict {
    let bit = |n: u32| (word >> n) & 1;
    if bit(0) != 0 {
        return FrameVerdict::BadStart;
    }
    if bit(10) != 1 {
        return FrameVerdict::BadStop;
    }
    let mut ones = 0;
    for n in 1..=9 {
        ones += bit(n);
    }
    if ones % 2 != 1 {
        return FrameVerdict::Parity;
    }
    let mut data = 0u8;
    for n in 0..8 {
        if bit(n + 1) == 1 {
            data |= 1 << n;
        }
    }
    FrameVerdict::Data(data)
}

pub fn frame_expect(word: u16) -> Result<u8, Error> {
    match frame_rule(word) {
        FrameVerdict::Data(d) => Ok(d),
        FrameVerdict::BadStart => Err(Error::BadStartBit),
        FrameVerdict::BadStop => Err(Error::BadStopBit),
        FrameVerdict::Parity => Err(Error::ParityError),
    }
}

/// Encode a byte as the valid 11-bit frame a keyboard would send.
pub fn encode_frame(byte: u8) -> u16 {
    let parity = if byte.count_ones() % 2 == 0 { 1u16 } else { 0u16 };
    ((byte as u16) << 1) | (parity << 9) | (1 << 10)
}

pub fn frame_res_str(r: &Result<u8, Error>) -> String {
    match r {
        Ok(b) => format!("Ok(0x{:02X})", b),
        Err(e) => format!("Err({:?})", e),
    }
}

// ------------------------------------------------------------------ scancode prefix automata (C01, C02)

/// What the reference demands for one byte.
#[derive(Clone, Debug, PartialEq, Eq)]
pub enum Want {
    /// prefix byte in a legal position
    NoEvent,
    Event(KeyCode, KeyState),
    Unknown,
    /// statement does not constrain the outcome beyond "not some other key"
    /// (Set 2 `F0 00` / `F0 AA`): Up/SingleShot of that status key, or an error
    StatusAfterRelease(KeyCode),
}

impl Want {
    pub fn show(&self) -> String {
        match self {
            Want::NoEvent => "None".into(),
            Want::Event(k, s) => format!("{}({:?})", state_str(*s), k),
            Want::Unknown => "Err(UnknownKeyCode)".into(),
            Want::StatusAfterRelease(k) => format!("Up|SingleShot({:?})|Err", k),
        }
    }
    pub fn accepts(&self, got: &Result<Option<KeyEvent>, Error>) -> bool {
        match (self, got) {
            (Want::NoEvent, Ok(None)) => true,
            (Want::Event(k, s), Ok(Some(e))) => e.code == *k && e.state == *s,
            (Want::Unknown, Err(Error::UnknownKeyCode)) => true,
            (Want::StatusAfterRelease(k), Ok(Some(e))) => {
                e.code == *k && (e.state == KeyState::Up || e.state == KeyState::SingleShot)
            }
            (Want::StatusAfterRelease(_), Err(_)) => true,
            _ => false,
        }
    }
    /// does this outcome end a sequence (decoder must be back in its initial condition)?
    pub fn is_final(&self) -> bool {
        !matches!(self, Want::NoEvent)
    }
}

/// Prefix context of the Set 2 reference automaton.
#[derive(Clone, Copy, Debug, PartialEq, Eq, PartialOrd, Ord, Hash, Default)]
pub struct Ctx2 {
    pub ext: u8, // 0 none, 1 E0, 2 E1
    pub rel: bool,
}
impl Ctx2 {
    pub fn name(&self) -> String {
        let e = ["plain", "e0", "e1"][self.ext as usize];
        if self.rel {
            format!("{}+f0", e)
        } else {
            e.to_string()
        }
    }
    pub fn index(&self) -> usize {
        self.ext as usize * 2 + self.rel as usize
    }
    pub fn prefix_bytes(&self) -> Vec<u8> {
        let mut v = Vec::new();
        match self.ext {
            1 => v.push(0xE0),
            2 => v.push(0xE1),
            _ => {}
        }
        if self.rel {
            v.push(0xF0);
        }
        v
    }
    pub fn all() -> Vec<Ctx2> {
        let mut v = Vec::new();
        for ext in 0..3 {
            for rel in [false, true] {
                v.push(Ctx2 { ext, rel });
            }
        }
        v
    }
}

pub fn set2_step(r: &ScanRef, ctx: &mut Ctx2, b: u8) -> Want {
    if !ctx.rel && ctx.ext == 0 && b == 0xE0 {
        ctx.ext = 1;
        return Want::NoEvent;
    }
    if !ctx.rel && ctx.ext == 0 && b == 0xE1 {
        ctx.ext = 2;
        return Want::NoEvent;
    }
    if !ctx.rel && b == 0xF0 {
        ctx.rel = true;
        return Want::NoEvent;
    }
    let c = *ctx;
    *ctx = Ctx2::default();
    match r.table[c.ext as usize][b as usize] {
        Some(rk) if rk.oneshot => {
            if c.rel {
                Want::StatusAfterRelease(rk.key)
            } else {
                Want::Event(rk.key, KeyState::SingleShot)
            }
        }
        Some(rk) => Want::Event(rk.key, if c.rel { KeyState::Up } else { KeyState::Down }),
        None => Want::Unknown,
    }
}

/// Prefix context of the Set 1 reference automaton: 0 none, 1 E0, 2 E1.
pub type Ctx1 = u8;
pub fn ctx1_name(c: Ctx1) -> &'static str {
    ["plain", "e0", "e1"][c as usize]
}
pub fn ctx1_prefix(c: Ctx1) -> Vec<u8> {
    match c {
        1 => vec![0xE0],
        2 => vec![0xE1],
        _ => vec![],
    }
}

pub fn set1_step(r: &ScanRef, ctx: &mut Ctx1, b: u8) -> Want {
    if *ctx == 0 && b == 0xE0 {
        *ctx = 1;
        return Want::NoEvent;
    }
    if *ctx == 0 && b == 0xE1 {
        *ctx = 2;
        return Want::NoEvent;
    }
    let c = *ctx;
    *ctx = 0;
    let code = b & 0x7F;
    let up = b & 0x80 != 0;
    match r.table[c as usize][code as usize] {
        Some(rk) => Want::Event(rk.key, if up { KeyState::Up } else { KeyState::Down }),
        None => Want::Unknown,
    }
}

// ------------------------------------------------------------------ modifier record (C04)

/// The model of property C04: seven momentary flags = "last event was a press",
/// two toggles = parity of presses (NumLock starts on; presses with the hidden Ctrl held do not count).
#[derive(Clone, Copy, Debug, PartialEq, Eq)]
pub struct ModModel {
    pub bits: u16,
}
impl ModModel {
    pub fn new() -> ModModel {
        ModModel { bits: B_NUMLOCK }
    }
    pub fn step(&mut self, key: KeyCode, state: KeyState) {
        let held = |b: u16, bits: &mut u16| match state {
            KeyState::Down => *bits |= b,
            KeyState::Up => *bits &= !b,
            KeyState::SingleShot => {}
        };
        match key {
            KeyCode::LShift => held(B_LSHIFT, &mut self.bits),
            KeyCode::RShift => held(B_RSHIFT, &mut self.bits),
            KeyCode::LControl => held(B_LCTRL, &mut self.bits),
            KeyCode::RControl => held(B_RCTRL, &mut self.bits),
            KeyCode::LAlt => held(B_LALT, &mut self.bits),
            KeyCode::RAltGr => held(B_RALT, &mut self.bits),
            KeyCode::RControl2 => held(B_RCTRL2, &mut self.bits),
            KeyCode::CapsLock => {
                if state == KeyState::Down {
                    self.bits ^= B_CAPSLOCK;
                }
            }
            KeyCode::NumpadLock => {
                if state == KeyState::Down && self.bits & B_RCTRL2 == 0 {
                    self.bits ^= B_NUMLOCK;
                }
            }
            _ => {}
        }
    }
}

// ------------------------------------------------------------------ i8042 streaming translation (C13)

/// Streaming model of the controller: E0/E1 pass through, F0 sets "break", a code byte is
/// translated through the table and gets bit 7 when a break is pending.
pub struct I8042 {
    brk: bool,
}
impl I8042 {
    pub fn new() -> I8042 {
        I8042 { brk: false }
    }
    /// returns the translated byte, if one is emitted
    pub fn feed(&mut self, x: &Xlate, b: u8) -> Option<u8> {
        match b {
            0xE0 | 0xE1 => Some(b),
            0xF0 => {
                self.brk = true;
                None
            }
            _ => {
                let t = x.map[b as usize]?;
                let out = if self.brk { t | 0x80 } else { t };
                self.brk = false;
                Some(out)
            }
        }
    }
}

/// Scancode bytes that press (`down`) or release a key, from the reference table.
pub fn seq_for(r: &ScanRef, set: u8, key: KeyCode, down: bool) -> Option<Vec<u8>> {
    let (ctx, code) = r.code_of(key)?;
    let mut v = Vec::new();
    match ctx {
        1 => v.push(0xE0),
        2 => v.push(0xE1),
        _ => {}
    }
    if set == 2 {
        if !down {
            v.push(0xF0);
        }
        v.push(code);
    } else {
        v.push(if down { code } else { code | 0x80 });
    }
    Some(v)
}
