//! SplitMix64 — seeded, reproducible workload randomness.

#[derive(Clone, Debug)]
pub struct Rng(pub u64);

impl Rng {
    pub fn new(seed: u64) -> Rng {
        Rng(seed ^ 0x9E37_79B9_7F4A_7C15)
    }
    /// Independent stream `n` of a base seed.
    pub fn fork(seed: u64, n: u64) -> Rng {
        let mut r = Rng::new(seed.wrapping_mul(0xD6E8_FEB8_6659_FD93).wrapping_add(n.wrapping_mul(0xA24B_AED4_963E_E407)));
        r.next();
        r
    }
    #[inline]
    pub fn next(&mut self) -> u64 {
        self.0 = self.0.wrapping_add(0x9E37_79B9_7F4A_7C15);
        let mut z = self.0;
        z = (z ^ (z >> 30)).wrapping_mul(0xBF58_476D_1CE4_E5B9);
        z = (z ^ (z >> 27)).wrapping_mul(0x94D0_49BB_1331_11EB);
        z ^ (z >> 31)
    }
    #[inline]
    pub fn below(&mut self, n: u64) -> u64 {
        // n small relative to 2^64: modulo bias is irrelevant for workload generation
        self.next() % n
    }
    #[inline]
    pub fn byte(&mut self) -> u8 {
        (self.next() >> 32) as u8
    }
    #[inline]
    pub fn bit(&mut self) -> bool {
        (self.next() >> 40) & 1 == 1
    }
    /// true with probability num/den
    #[inline]
    pub fn chance(&mut self, num: u64, den: u64) -> bool {
        self.below(den) < num
    }
    pub fn pick<'a, T>(&mut self, xs: &'a [T]) -> &'a T {
        &xs[self.below(xs.len() as u64) as usize]
    }
}
