//! Minimal JSON value, writer and parser (std only; no crates can be fetched here).

use std::collections::BTreeMap;
use std::fmt::Write as _;

#[derive(Clone, Debug, PartialEq)]
pub enum J {
    Null,
    Bool(bool),
    Int(i64),
    Num(f64),
    Str(String),
    Arr(Vec<J>),
    Obj(Vec<(String, J)>),
}

impl J {
    pub fn obj() -> J {
        J::Obj(Vec::new())
    }
    pub fn s<S: Into<String>>(s: S) -> J {
        J::Str(s.into())
    }
    pub fn u(n: u64) -> J {
        J::Int(n as i64)
    }
    pub fn set<K: Into<String>>(&mut self, k: K, v: J) -> &mut J {
        let k = k.into();
        if let J::Obj(items) = self {
            if let Some(slot) = items.iter_mut().find(|(kk, _)| *kk == k) {
                slot.1 = v;
            } else {
                items.push((k, v));
            }
        } else {
            panic!("set on non-object");
        }
        self
    }
    pub fn with<K: Into<String>>(mut self, k: K, v: J) -> J {
        self.set(k, v);
        self
    }
    pub fn get(&self, k: &str) -> Option<&J> {
        match self {
            J::Obj(items) => items.iter().find(|(kk, _)| kk == k).map(|(_, v)| v),
            _ => None,
        }
    }
    pub fn as_str(&self) -> Option<&str> {
        match self {
            J::Str(s) => Some(s),
            _ => None,
        }
    }
    pub fn as_i64(&self) -> Option<i64> {
        match self {
            J::Int(i) => Some(*i),
            J::Num(f) => Some(*f as i64),
            _ => None,
        }
    }
    pub fn as_arr(&self) -> Option<&Vec<J>> {
        match self {
            J::Arr(a) => Some(a),
            _ => None,
        }
    }
    pub fn from_map(m: &BTreeMap<String, u64>) -> J {
        J::Obj(m.iter().map(|(k, v)| (k.clone(), J::u(*v))).collect())
    }
    pub fn strs<I: IntoIterator<Item = S>, S: Into<String>>(it: I) -> J {
        J::Arr(it.into_iter().map(|s| J::Str(s.into())).collect())
    }

    pub fn to_string(&self) -> String {
        let mut out = String::new();
        self.write(&mut out, 0, false);
        out
    }
    pub fn to_pretty(&self) -> String {
        let mut out = String::new();
        self.write(&mut out, 0, true);
        out.push('\n');
        out
    }
    fn write(&self, out: &mut String, ind: usize, pretty: bool) {
        match self {
            J::Null => out.push_str("null"),
            J::Bool(b) => out.push_str(if *b { "true" } else { "false" }),
            J::Int(i) => {
                let _ = write!(out, "{}", i);
            }
            J::Num(f) => {
                if f.is_finite() {
                    let _ = write!(out, "{:.3}", f);
                } else {
                    out.push_str("null");
                }
            }
            J::Str(s) => write_str(out, s),
            J::Arr(a) => {
                if a.is_empty() {
                    out.push_str("[]");
                    return;
                }
                out.push('[');
                for (i, v) in a.iter().enumerate() {
                    if i > 0 {
                        out.push(',');
                    }
                    if pretty {
                        out.push('\n');
                        for _ in 0..ind + 1 {
                            out.push(' ');
                        }
                    }
                    v.write(out, ind + 1, pretty);
                }
                if pretty {
                    out.push('\n');
                    for _ in 0..ind {
                        out.push(' ');
                    }
                }
                out.push(']');
            }
            J::Obj(o) => {
                if o.is_empty() {
                    out.push_str("{}");
                    return;
                }
                out.push('{');
                for (i, (k, v)) in o.iter().enumerate() {
                    if i > 0 {
                        out.push(',');
                    }
                    if pretty {
                        out.push('\n');
                        for _ in 0..ind + 1 {
                            out.push(' ');
                        }
                    }
                    write_str(out, k);
                    out.push(':');
                    if pretty {
                        out.push(' ');
                    }
                    v.write(out, ind + 1, pretty);
                }
                if pretty {
                    out.push('\n');
                    for _ in 0..ind {
                        out.push(' ');
                    }
                }
                out.push('}');
            }
        }
    }
}

fn write_str(out: &mut String, s: &str) {
    out.push('"');
    for c in s.chars() {
        match c {
            '"' => out.push_str("\\\""),
            '\\' => out.push_str("\\\\"),
            '\n' => out.push_str("\\n"),
            '\r' => out.push_str("\\r"),
            '\t' => out.push_str("\\t"),
            c if (c as u32) < 0x20 || (c as u32) == 0x7f => {
                let _ = write!(out, "\\u{:04x}", c as u32);
            }
            c => out.push(c),
        }
    }
    out.push('"');
}

// ---------------------------------------------------------------- parser (for replay files)

pub fn parse(src: &str) -> Result<J, String> {
    let b: Vec<char> = src.chars().collect();
    let mut p = 0usize;
    let v = parse_val(&b, &mut p)?;
    skip_ws(&b, &mut p);
    if p != b.len() {
        return Err(format!("trailing data at {}", p));
    }
    Ok(v)
}

fn skip_ws(b: &[char], p: &mut usize) {
    while *p < b.len() && b[*p].is_whitespace() {
        *p += 1;
    }
}

fn parse_val(b: &[char], p: &mut usize) -> Result<J, String> {
    skip_ws(b, p);
    if *p >= b.len() {
        return Err("eof".into());
    }
    match b[*p] {
        '{' => {
            *p += 1;
            let mut items = Vec::new();
            skip_ws(b, p);
            if *p < b.len() && b[*p] == '}' {
                *p += 1;
                return Ok(J::Obj(items));
            }
            loop {
                skip_ws(b, p);
                let k = match parse_val(b, p)? {
                    J::Str(s) => s,
                    _ => return Err("key must be string".into()),
                };
                skip_ws(b, p);
                if *p >= b.len() || b[*p] != ':' {
                    return Err(format!("expected : at {}", p));
                }
                *p += 1;
                let v = parse_val(b, p)?;
                items.push((k, v));
                skip_ws(b, p);
                if *p < b.len() && b[*p] == ',' {
                    *p += 1;
                    continue;
                }
                if *p < b.len() && b[*p] == '}' {
                    *p += 1;
                    return Ok(J::Obj(items));
                }
                return Err(format!("expected , or }} at {}", p));
            }
        }
        '[' => {
            *p += 1;
            let mut items = Vec::new();
            skip_ws(b, p);
            if *p < b.len() && b[*p] == ']' {
                *p += 1;
                return Ok(J::Arr(items));
            }
            loop {
                let v = parse_val(b, p)?;
                items.push(v);
                skip_ws(b, p);
                if *p < b.len() && b[*p] == ',' {
                    *p += 1;
                    continue;
                }
                if *p < b.len() && b[*p] == ']' {
                    *p += 1;
                    return Ok(J::Arr(items));
                }
                return Err(format!("expected , or ] at {}", p));
            }
        }
        '"' => {
            *p += 1;
            let mut s = String::new();
            while *p < b.len() {
                let c = b[*p];
                *p += 1;
                match c {
                    '"' => return Ok(J::Str(s)),
                    '\\' => {
                        if *p >= b.len() {
                            return Err("eof in escape".into());
                        }
                        let e = b[*p];
                        *p += 1;
                        match e {
                            'n' => s.push('\n'),
                            'r' => s.push('\r'),
                            't' => s.push('\t'),
                            'b' => s.push('\u{8}'),
                            'f' => s.push('\u{c}'),
                            '/' => s.push('/'),
                            '\\' => s.push('\\'),
                            '"' => s.push('"'),
                            'u' => {
                                if *p + 4 > b.len() {
                                    return Err("eof in \\u".into());
                                }
                                let h: String = b[*p..*p + 4].iter().collect();
                                *p += 4;
                                let n = u32::from_str_radix(&h, 16).map_err(|e| e.to_string())?;
                                s.push(char::from_u32(n).unwrap_or('\u{fffd}'));
                            }
                            _ => return Err("bad escape".into()),
                        }
                    }
                    c => s.push(c),
                }
            }
            Err("eof in string".into())
        }
        't' if b[*p..].starts_with(&['t', 'r', 'u', 'e']) => {
            *p += 4;
            Ok(J::Bool(true))
        }
        'f' if b[*p..].starts_with(&['f', 'a', 'l', 's', 'e']) => {
            *p += 5;
            Ok(J::Bool(false))
        }
        'n' if b[*p..].starts_with(&['n', 'u', 'l', 'l']) => {
            *p += 4;
            Ok(J::Null)
        }
        _ => {
            let st = *p;
            while *p < b.len() && (b[*p].is_ascii_digit() || "+-.eE".contains(b[*p])) {
                *p += 1;
            }
            let t: String = b[st..*p].iter().collect();
            if let Ok(i) = t.parse::<i64>() {
                Ok(J::Int(i))
            } else if let Ok(f) = t.parse::<f64>() {
                Ok(J::Num(f))
            } else {
                Err(format!("bad token at {}", st))
            }
        }
    }
}
