//! Shared plumbing for the scancode-decoder monitors: a uniform view of the two real decoders
//! (through the `verif-hooks` derives), compact result encoding, workload generators G1–G4.

use crate::keys::*;
use crate::model::*;
use crate::refs::ScanRef;
use crate::rng::Rng;
use pc_keyboard::{Error, KeyCode, KeyEvent, KeyState, ScancodeSet, ScancodeSet1, ScancodeSet2};

pub type Res = Result<Option<KeyEvent>, Error>;

/// The real decoders, with the hook's Clone/Eq/Debug.
pub trait Dec: ScancodeSet + Clone + PartialEq + std::fmt::Debug + Default + Send + 'static {
    const SET: u8;
    fn fresh() -> Self;
    /// maximum number of consecutive "no event yet" results the property allows
    const MAX_NONE_RUN: usize;
}
/// Which constructor `fresh()` uses: 0 = `new()`, k = the k-th further constructor the tree offers (build.rs).
pub static CTOR_SET1: std::sync::atomic::AtomicUsize = std::sync::atomic::AtomicUsize::new(0);
pub static CTOR_SET2: std::sync::atomic::AtomicUsize = std::sync::atomic::AtomicUsize::new(0);
pub static CTOR_PS2: std::sync::atomic::AtomicUsize = std::sync::atomic::AtomicUsize::new(0);
/// true while a monitor is being repeated from a further constructor (checks that speak about `new()` itself are skipped then)
pub fn ctor_overridden() -> bool {
    use std::sync::atomic::Ordering::Relaxed;
    CTOR_SET1.load(Relaxed) != 0 || CTOR_SET2.load(Relaxed) != 0 || CTOR_PS2.load(Relaxed) != 0
}
pub fn fresh_ps2() -> pc_keyboard::Ps2Decoder {
    match CTOR_PS2.load(std::sync::atomic::Ordering::Relaxed) {
        0 => pc_keyboard::Ps2Decoder::new(),
        k => (crate::layouts::extra_ctors_ps2()[k - 1].1)(),
    }
}
impl Dec for ScancodeSet1 {
    const SET: u8 = 1;
    fn fresh() -> Self {
        match CTOR_SET1.load(std::sync::atomic::Ordering::Relaxed) {
            0 => ScancodeSet1::new(),
            k => (crate::layouts::extra_ctors_set1()[k - 1].1)(),
        }
    }
    const MAX_NONE_RUN: usize = 1;
}
impl Dec for ScancodeSet2 {
    const SET: u8 = 2;
    fn fresh() -> Self {
        match CTOR_SET2.load(std::sync::atomic::Ordering::Relaxed) {
            0 => ScancodeSet2::new(),
            k => (crate::layouts::extra_ctors_set2()[k - 1].1)(),
        }
    }
    const MAX_NONE_RUN: usize = 2;
}

pub fn set_name(set: u8) -> &'static str {
    match set {
        1 => "set1",
        2 => "set2",
        _ => "user-defined-set",
    }
}

/// Reference step for either set, with a uniform context type.
pub fn ref_step(set: u8, r: &ScanRef, ctx: &mut Ctx2, b: u8) -> Want {
    if set == 2 {
        set2_step(r, ctx, b)
    } else {
        let mut c: Ctx1 = ctx.ext;
        let w = set1_step(r, &mut c, b);
        ctx.ext = c;
        ctx.rel = false;
        w
    }
}

pub fn ref_for(set: u8) -> ScanRef {
    let mut r = if set == 1 { ScanRef::set1() } else { ScanRef::set2() };
    let uni = universe();
    if uni.len() > NAMED_KEYS.len() {
        let _ = r.extend_from_readme(set, &uni);
    }
    r
}

pub fn contexts(set: u8) -> Vec<Ctx2> {
    if set == 2 {
        Ctx2::all()
    } else {
        (0..3).map(|ext| Ctx2 { ext, rel: false }).collect()
    }
}

/// Compact encoding of a decode result: 0 = None, 1..=15 = Err kinds, ≥16 = event.
#[inline]
pub fn enc_res(r: &Res) -> u16 {
    match r {
        Ok(None) => 0,
        Err(Error::UnknownKeyCode) => 1,
        Err(Error::BadStartBit) => 2,
        Err(Error::BadStopBit) => 3,
        Err(Error::ParityError) => 4,
        Err(_) => 5,
        Ok(Some(e)) => {
            let s = match e.state {
                KeyState::Down => 0,
                KeyState::Up => 1,
                KeyState::SingleShot => 2,
            };
            16 + (e.code as u8 as u16) * 3 + s
        }
    }
}
pub const ENC_RES_PANIC: u16 = 0xFFFF;
pub fn enc_res_str(e: u16, uni: &[KeyCode]) -> String {
    match e {
        0 => "None".into(),
        1 => "Err(UnknownKeyCode)".into(),
        2 => "Err(BadStartBit)".into(),
        3 => "Err(BadStopBit)".into(),
        4 => "Err(ParityError)".into(),
        5 => "Err(other)".into(),
        ENC_RES_PANIC => "PANIC".into(),
        n => {
            let k = ((n - 16) / 3) as usize;
            let s = ["Down", "Up", "SingleShot"][((n - 16) % 3) as usize];
            match uni.iter().find(|x| kidx(**x) == k) {
                Some(key) => format!("{}({:?})", s, key),
                None => format!("{}(#{})", s, k),
            }
        }
    }
}

// ------------------------------------------------------------------ byte-stream workloads

pub const GEN_NAMES: [&str; 6] = ["G1-uniform", "G2-prefix-heavy", "G3-typing", "G4-typing+faults", "G5-real-world-bursts", "G6-typematic-runs"];

/// Byte bursts real keyboards and controllers actually produce but a key table does not contain: Pause, Ctrl+Break,
/// PrintScreen / SysRq, the fake shifts around navigation keys, controller replies (ACK, resend, echo, BAT, ID bytes).
pub fn special_sequences(set: u8) -> Vec<Vec<u8>> {
    let v: &[&[u8]] = if set == 2 {
        &[
            &[0xE1, 0x14, 0x77, 0xE1, 0xF0, 0x14, 0xF0, 0x77], // Pause
            &[0xE0, 0x7E, 0xE0, 0xF0, 0x7E],                   // Ctrl+Break
            &[0xE0, 0x37, 0xE0, 0xF0, 0x37], // ACPI Power, Sleep, Wake: make + break
            &[0xE0, 0x3F, 0xE0, 0xF0, 0x3F],
            &[0xE0, 0x5E, 0xE0, 0xF0, 0x5E],
            &[0x14],
            &[0xF0, 0x14],
            &[0xE0, 0x14],
            &[0xE0, 0xF0, 0x14],
            &[0xE1, 0x14],
            &[0xE1, 0xF0, 0x14],
            &[0xE0, 0x12, 0xE0, 0x7C], // PrintScreen make
            &[0xE0, 0xF0, 0x7C, 0xE0, 0xF0, 0x12],
            &[0x11, 0x84, 0xF0, 0x84, 0xF0, 0x11], // Alt+SysRq
            &[0x7F],
            &[0xE0, 0x12],
            &[0xE0, 0xF0, 0x12],
            &[0xE0, 0x59],
            &[0xE0, 0xF0, 0x59],
            &[0xE0, 0xF0, 0x12, 0xE0, 0x75, 0xE0, 0xF0, 0x75, 0xE0, 0x12], // arrow with Shift held
            &[0x83],
            &[0xF0, 0x83],
            &[0xAA],
            &[0x00],
            &[0xFF],
            &[0xFA],
            &[0xFE],
            &[0xEE],
            &[0xFC],
            &[0xFA, 0xAA],
            &[0xAB, 0x83],
            &[0xAB, 0x41],
            &[0xFA, 0xAB, 0x83],
            &[0x77],
            &[0xF0, 0x77],
            &[0x1C],
            &[0xF0, 0x1C],
        ]
    } else {
        &[
            &[0xE1, 0x1D, 0x45, 0xE1, 0x9D, 0xC5], // Pause
            &[0xE0, 0x46, 0xE0, 0xC6],             // Ctrl+Break
            &[0xE0, 0x5E, 0xE0, 0xDE], // ACPI Power, Sleep, Wake: make + break
            &[0xE0, 0x5F, 0xE0, 0xDF],
            &[0xE0, 0x63, 0xE0, 0xE3],
            &[0x1D],
            &[0x9D],
            &[0xE0, 0x1D],
            &[0xE0, 0x9D],
            &[0xE1, 0x1D],
            &[0xE1, 0x9D],
            &[0xE0, 0x2A, 0xE0, 0x37], // PrintScreen make
            &[0xE0, 0xB7, 0xE0, 0xAA],
            &[0x38, 0x54, 0xD4, 0xB8], // Alt+SysRq
            &[0xE0, 0x2A],
            &[0xE0, 0xAA],
            &[0xE0, 0x36],
            &[0xE0, 0xB6],
            &[0xE0, 0xAA, 0xE0, 0x48, 0xE0, 0xC8, 0xE0, 0x2A], // arrow with Shift held
            &[0x41],
            &[0xC1],
            &[0xAA],
            &[0x00],
            &[0xFF],
            &[0xFA],
            &[0xFE],
            &[0xEE],
            &[0xFC],
            &[0xFA, 0xAA],
            &[0xAB, 0x41],
            &[0x45],
            &[0xC5],
            &[0x1E],
            &[0x9E],
        ]
    };
    let mut all: Vec<Vec<u8>> = v.iter().map(|x| x.to_vec()).collect();
    // byte runs spelled out in the tree's own source (build.rs): whatever recognises a particular run has to name it
    all.extend(crate::layouts::magic_byte_sequences());
    all
}

/// Keys the reference says this set can express, with their sequences.
pub struct Typist {
    pub set: u8,
    pub keys: Vec<KeyCode>,
    pub make: Vec<Vec<u8>>,
    pub brk: Vec<Vec<u8>>,
    pub defined_codes: Vec<u8>,
    pub undefined_codes: Vec<u8>,
}
impl Typist {
    pub fn new(set: u8, r: &ScanRef) -> Typist {
        let mut keys = Vec::new();
        let mut make = Vec::new();
        let mut brk = Vec::new();
        for k in NAMED_KEYS.iter() {
            if let Some(m) = seq_for(r, set, *k, true) {
                keys.push(*k);
                make.push(m);
                brk.push(seq_for(r, set, *k, false).unwrap());
            }
        }
        let mut defined_codes = Vec::new();
        let mut undefined_codes = Vec::new();
        for c in 0..=255u8 {
            let code = if set == 1 { c & 0x7f } else { c };
            if r.table[0][code as usize].is_some() {
                defined_codes.push(c);
            } else {
                undefined_codes.push(c);
            }
        }
        Typist {
            set,
            keys,
            make,
            brk,
            defined_codes,
            undefined_codes,
        }
    }
    fn pause(&self) -> Vec<u8> {
        if self.set == 2 {
            vec![0xE1, 0x14, 0x77, 0xE1, 0xF0, 0x14, 0xF0, 0x77]
        } else {
            vec![0xE1, 0x1D, 0x45, 0xE1, 0x9D, 0xC5]
        }
    }
    fn printscreen(&self, down: bool) -> Vec<u8> {
        match (self.set, down) {
            (2, true) => vec![0xE0, 0x12, 0xE0, 0x7C],
            (2, false) => vec![0xE0, 0xF0, 0x7C, 0xE0, 0xF0, 0x12],
            (_, true) => vec![0xE0, 0x2A, 0xE0, 0x37],
            (_, false) => vec![0xE0, 0xB7, 0xE0, 0xAA],
        }
    }
    /// G3: well-formed typing (make, typematic repeats, chords, compound sequences)
    pub fn typing(&self, rng: &mut Rng, len: usize) -> Vec<u8> {
        let mut out = Vec::with_capacity(len + 16);
        let mut held: Vec<usize> = Vec::new();
        while out.len() < len {
            match rng.below(20) {
                0 => out.extend(self.pause()),
                1 => {
                    out.extend(self.printscreen(true));
                    out.extend(self.printscreen(false));
                }
                2..=4 if !held.is_empty() => {
                    let i = rng.below(held.len() as u64) as usize;
                    let k = held.swap_remove(i);
                    out.extend(&self.brk[k]);
                }
                5..=6 if !held.is_empty() => {
                    // typematic repeat of the most recent key
                    let k = *held.last().unwrap();
                    for _ in 0..1 + rng.below(3) {
                        out.extend(&self.make[k]);
                    }
                }
                7 if self.set == 2 => out.push(if rng.bit() { 0x00 } else { 0xAA }),
                _ => {
                    let k = rng.below(self.keys.len() as u64) as usize;
                    out.extend(&self.make[k]);
                    if rng.chance(1, 2) {
                        out.extend(&self.brk[k]);
                    } else if held.len() < 6 {
                        held.push(k);
                    } else {
                        out.extend(&self.brk[k]);
                    }
                }
            }
        }
        for k in held {
            out.extend(&self.brk[k]);
        }
        out
    }
    /// G4: G3 with transmission faults
    pub fn faulty_typing(&self, rng: &mut Rng, len: usize) -> Vec<u8> {
        let clean = self.typing(rng, len);
        let mut out = Vec::with_capacity(clean.len() + 8);
        for b in clean {
            match rng.below(40) {
                0 => {} // dropped byte
                1 => {
                    out.push(b);
                    out.push(b); // duplicated byte
                }
                2 => out.push(b ^ (1 << rng.below(8))), // single bit flip
                3 => {
                    out.push(*rng.pick(&[0x00u8, 0xAA, 0xEE, 0xFA, 0xFE, 0xFF, 0xFC]));
                    out.push(b);
                }
                4 => {
                    out.push(*rng.pick(&[0xE0u8, 0xE1, 0xF0]));
                    out.push(b);
                }
                _ => out.push(b),
            }
        }
        out
    }
    /// G2: prefix-heavy garbage
    pub fn prefix_heavy(&self, rng: &mut Rng, len: usize) -> Vec<u8> {
        (0..len)
            .map(|_| {
                if rng.bit() {
                    *rng.pick(&[0xE0u8, 0xE1, 0xF0])
                } else if rng.bit() {
                    *rng.pick(&self.defined_codes)
                } else {
                    *rng.pick(&self.undefined_codes)
                }
            })
            .collect()
    }
    /// G5: real-world bursts interleaved with ordinary key strokes
    pub fn bursts(&self, rng: &mut Rng, len: usize) -> Vec<u8> {
        let sp = special_sequences(self.set);
        let mut out = Vec::with_capacity(len + 16);
        while out.len() < len {
            if rng.below(3) > 0 {
                out.extend(rng.pick(&sp));
            } else {
                let k = rng.below(self.keys.len() as u64) as usize;
                out.extend(&self.make[k]);
                if rng.bit() {
                    out.extend(&self.brk[k]);
                }
            }
        }
        out
    }
    /// G6: long typematic runs (a held key repeats its make code hundreds of times, occasionally 2^16 times) followed by
    /// the keys whose codes are adjacent to it
    pub fn typematic_runs(&self, rng: &mut Rng, len: usize) -> Vec<u8> {
        let mut out = Vec::with_capacity(len + 1024);
        while out.len() < len {
            let k = rng.below(self.keys.len() as u64) as usize;
            let n = match rng.below(12) {
                0 if len > 100_000 => 65_530 + rng.below(12) as usize,
                1..=4 => 250 + rng.below(20) as usize,
                5..=7 => 120 + rng.below(20) as usize,
                _ => 1 + rng.below(40) as usize,
            };
            for _ in 0..n {
                out.extend(&self.make[k]);
            }
            // neighbours by code (same prefix), then the release
            let code = *self.make[k].last().unwrap();
            for (j, m) in self.make.iter().enumerate() {
                let c = *m.last().unwrap();
                if m.len() == self.make[k].len() && (c == code.wrapping_add(1) || c == code.wrapping_sub(1)) {
                    out.extend(m);
                    out.extend(&self.brk[j]);
                }
            }
            out.extend(&self.brk[k]);
        }
        out
    }
    pub fn generate(&self, which: usize, rng: &mut Rng, len: usize) -> Vec<u8> {
        match which {
            0 => (0..len).map(|_| rng.byte()).collect(),
            1 => self.prefix_heavy(rng, len),
            2 => self.typing(rng, len),
            3 => self.faulty_typing(rng, len),
            4 => self.bursts(rng, len),
            _ => self.typematic_runs(rng, len),
        }
    }
}

/// Run `f(shard_index)` on `n` threads and collect the results in order.
pub fn par_map<T: Send + 'static>(n: usize, f: impl Fn(usize) -> T + Send + Sync + 'static) -> Vec<T> {
    let f = std::sync::Arc::new(f);
    let mut hs = Vec::new();
    for i in 0..n {
        let f = f.clone();
        hs.push(std::thread::Builder::new().stack_size(16 << 20).spawn(move || crate::report::guarded(|| f(i))).unwrap());
    }
    let mut out = Vec::new();
    for h in hs {
        match h.join() {
            Ok(Ok(v)) => out.push(v),
            // a panic that escaped every guarded section of a worker: re-raise it here with its original message
            Ok(Err(msg)) => panic!("worker: {}", msg),
            Err(_) => panic!("worker thread died"),
        }
    }
    out
}

pub fn n_threads() -> usize {
    std::env::var("VERIF_THREADS")
        .ok()
        .and_then(|s| s.parse().ok())
        .unwrap_or_else(|| std::thread::available_parallelism().map(|n| n.get()).unwrap_or(4).min(16))
}

/// A user-defined scancode set (the trait is public): answers every byte with a result that is a deterministic
/// function of the byte and of how many bytes it has seen – events, "no event yet", and every error kind, including
/// the three framing errors that the shipped sets never return.  Used where the property quantifies over the
/// scancode-set parameter (C18: Keyboard must treat whatever its scancode stage returns the same way).
#[derive(Debug, Clone, PartialEq, Eq, Default)]
pub struct ScriptedSet {
    pub seen: u32,
}
impl ScancodeSet for ScriptedSet {
    fn advance_state(&mut self, code: u8) -> Result<Option<KeyEvent>, Error> {
        self.seen = self.seen.wrapping_add(1);
        let x = (code as u32).wrapping_mul(31).wrapping_add(self.seen.wrapping_mul(7)) % 11;
        match x {
            0 => Err(Error::BadStartBit),
            1 => Err(Error::BadStopBit),
            2 => Err(Error::ParityError),
            3 => Err(Error::UnknownKeyCode),
            4 | 5 => Ok(None),
            _ => Ok(Some(KeyEvent::new(
                NAMED_KEYS[(code as usize + self.seen as usize) % NAMED_KEYS.len()],
                [KeyState::Down, KeyState::Up, KeyState::SingleShot][(code as usize) % 3],
            ))),
        }
    }
}
impl Dec for ScriptedSet {
    const SET: u8 = 9;
    fn fresh() -> Self {
        ScriptedSet::default()
    }
    const MAX_NONE_RUN: usize = usize::MAX;
}


/// A decoder caught between sequences after `n` repetitions of `unit` (which followed the history `pre`).
pub struct SoakPoint<D> {
    pub what: &'static str,
    pub pre: Vec<u8>,
    pub unit: Vec<u8>,
    pub n: u64,
    pub d: D,
}

/// Checkpointed soaks for the reference-free monitors: one unit (a held key's make code, a rejected byte, an ill-placed pair
/// of prefixes) repeated on a decoder with a history, and a clone of the decoder taken at every count 2^k + d (k = 8..kmax,
/// d = -3..3).  Each clone sits between sequences: the unit ends with an event or an error.
pub fn soak_checkpoints<D: Dec>(kmax: u32) -> Vec<SoakPoint<D>> {
    let set = D::SET;
    let r = ref_for(set);
    let typist = Typist::new(set, &r);
    let undefined = typist.undefined_codes.iter().copied().find(|c| ![0xE0u8, 0xE1, 0xF0].contains(c)).unwrap_or(0xFF);
    let mut cps: std::collections::BTreeSet<u64> = std::collections::BTreeSet::new();
    for k in 8..=kmax {
        for d in -3i64..=3 {
            cps.insert(((1i64 << k) + d) as u64);
        }
    }
    let cps: Vec<u64> = cps.into_iter().collect();
    let first_ext = typist.make.iter().find(|m| m.len() == 2 && m[0] == 0xE0).cloned().unwrap_or_default();
    let plain_make = typist.make.iter().find(|m| m.len() == 1).cloned().unwrap_or_default();
    let ext_make = typist.make.iter().rev().find(|m| m.len() == 2 && m[0] == 0xE0).cloned().unwrap_or_default();
    let jobs: Vec<(&'static str, Vec<u8>, Vec<u8>)> = vec![
        ("a plain key held after an E0 sequence", first_ext.clone(), plain_make.clone()),
        ("an E0 key held after a plain sequence", plain_make.clone(), ext_make),
        ("a rejected byte repeated", first_ext, vec![undefined]),
        ("an ill-placed prefix pair repeated", plain_make, vec![0xE0, 0xE0]),
    ];
    let jobs = std::sync::Arc::new(jobs);
    let cps = std::sync::Arc::new(cps);
    let n_jobs = jobs.len();
    let shards = par_map(n_jobs, move |t| {
        let (what, pre, unit) = &jobs[t];
        let mut out: Vec<SoakPoint<D>> = Vec::new();
        if unit.is_empty() {
            return out;
        }
        // the unit must end between sequences (by the reference's notion of a sequence)
        let r = ref_for(set);
        let mut ctx = Ctx2::default();
        for b in pre.iter().chain(unit.iter()) {
            let _ = ref_step(set, &r, &mut ctx, *b);
        }
        if ctx != Ctx2::default() {
            return out;
        }
        let _ = crate::report::guarded(|| {
            let mut d = D::fresh();
            for b in pre.iter() {
                let _ = d.advance_state(*b);
            }
            let total = *cps.last().unwrap();
            let mut next = 0usize;
            let mut n = 0u64;
            while n < total {
                for b in unit.iter() {
                    let _ = d.advance_state(*b);
                }
                n += 1;
                if next < cps.len() && n == cps[next] {
                    next += 1;
                    out.push(SoakPoint { what, pre: pre.clone(), unit: unit.clone(), n, d: d.clone() });
                }
            }
        });
        out
    });
    shards.into_iter().flatten().collect()
}


/// Run `work(obj, thread_no)` on `n` threads that share `obj` by reference – if and only if the object's type is `Sync`.
/// (Autoref specialisation: a tree in which a stage has stopped being `Sync` must not stop the harness from building; that
/// loss is C20's matter.)  `(&Shareable(&obj)).on_threads(n, &work)` gives None when the type is not Sync.
pub struct Shareable<'a, T>(pub &'a T);
pub trait SharedIfSync<T, R> {
    fn on_threads(&self, n: usize, work: &(dyn Fn(&T, usize) -> R + Sync)) -> Option<Vec<R>>;
}
impl<'a, T: Sync, R: Send + Default> SharedIfSync<T, R> for Shareable<'a, T> {
    fn on_threads(&self, n: usize, work: &(dyn Fn(&T, usize) -> R + Sync)) -> Option<Vec<R>> {
        let obj = self.0;
        Some(std::thread::scope(|sc| {
            let hs: Vec<_> = (0..n).map(|t| sc.spawn(move || work(obj, t))).collect();
            hs.into_iter().map(|h| h.join().unwrap_or_default()).collect()
        }))
    }
}
pub trait NotShared<T, R> {
    fn on_threads(&self, n: usize, work: &(dyn Fn(&T, usize) -> R + Sync)) -> Option<Vec<R>>;
}
impl<'a, 'b, T, R> NotShared<T, R> for &'b Shareable<'a, T> {
    fn on_threads(&self, _n: usize, _work: &(dyn Fn(&T, usize) -> R + Sync)) -> Option<Vec<R>> {
        None
    }
}
