//! Shared plumbing for the scancode-decoder monitors: a uniform view of the two real decoders
//! (through the `verif-hooks` derives), compact result encoding, workload generators G1–G4.

use crate::keys::*;
use crate::model::*;
use crate::refs::ScanRef;
use crate::rng::Rng;
use pc_keyboard::{Error, KeyCode, KeyEvent, KeyState, ScancodeSet, ScancodeSet1, ScancodeSet2};

pub type Res = Result<Option<KeyEvent>, Error>;

/// The real decoders, with the hook's Clone/Eq/Debug.
pub trait Dec: ScancodeSet + Clone + PartialEq + std::fmt::Debug + Default + Send + 'static {
    const SET: u8;
    fn fresh() -> Self;
    /// maximum number of consecutive "no event yet" results the property allows
    const MAX_NONE_RUN: usize;
}
impl Dec for ScancodeSet1 {
    const SET: u8 = 1;
    fn fresh() -> Self {
        ScancodeSet1::new()
    }
    const MAX_NONE_RUN: usize = 1;
}
impl Dec for ScancodeSet2 {
    const SET: u8 = 2;
    fn fresh() -> Self {
        ScancodeSet2::new()
    }
    const MAX_NONE_RUN: usize = 2;
}

pub fn set_name(set: u8) -> &'static str {
    if set == 1 {
        "set1"
    } else {
        "set2"
    }
}

/// Reference step for either set, with a uniform context type.
pub fn ref_step(set: u8, r: &ScanRef, ctx: &mut Ctx2, b: u8) -> Want {
    if set == 2 {
        set2_step(r, ctx, b)
    } else {
        let mut c: Ctx1 = ctx.ext;
        let w = set1_step(r, &mut c, b);
        ctx.ext = c;
        ctx.rel = false;
        w
    }
}

pub fn ref_for(set: u8) -> ScanRef {
    let mut r = if set == 1 { ScanRef::set1() } else { ScanRef::set2() };
    let uni = universe();
    if uni.len() > NAMED_KEYS.len() {
        let _ = r.extend_from_readme(set, &uni);
    }
    r
}

pub fn contexts(set: u8) -> Vec<Ctx2> {
    if set == 2 {
        Ctx2::all()
    } else {
        (0..3).map(|ext| Ctx2 { ext, rel: false }).collect()
    }
}

/// Compact encoding of a decode result: 0 = None, 1..=15 = Err kinds, ≥16 = event.
#[inline]
pub fn enc_res(r: &Res) -> u16 {
    match r {
        Ok(None) => 0,
        Err(Error::UnknownKeyCode) => 1,
        Err(Error::BadStartBit) => 2,
        Err(Error::BadStopBit) => 3,
        Err(Error::ParityError) => 4,
        Err(_) => 5,
        Ok(Some(e)) => {
            let s = match e.state {
                KeyState::Down => 0,
                KeyState::Up => 1,
                KeyState::SingleShot => 2,
            };
            16 + (e.code as u8 as u16) * 3 + s
        }
    }
}
pub const ENC_RES_PANIC: u16 = 0xFFFF;
pub fn enc_res_str(e: u16, uni: &[KeyCode]) -> String {
    match e {
        0 => "None".into(),
        1 => "Err(UnknownKeyCode)".into(),
        2 => "Err(BadStartBit)".into(),
        3 => "Err(BadStopBit)".into(),
        4 => "Err(ParityError)".into(),
        5 => "Err(other)".into(),
        ENC_RES_PANIC => "PANIC".into(),
        n => {
            let k = ((n - 16) / 3) as usize;
            let s = ["Down", "Up", "SingleShot"][((n - 16) % 3) as usize];
            match uni.iter().find(|x| kidx(**x) == k) {
                Some(key) => format!("{}({:?})", s, key),
                None => format!("{}(#{})", s, k),
            }
        }
    }
}

// ------------------------------------------------------------------ byte-stream workloads

pub const GEN_NAMES: [&str; 4] = ["G1-uniform", "G2-prefix-heavy", "G3-typing", "G4-typing+faults"];

/// Keys the reference says this set can express, with their sequences.
pub struct Typist {
    pub set: u8,
    pub keys: Vec<KeyCode>,
    pub make: Vec<Vec<u8>>,
    pub brk: Vec<Vec<u8>>,
    pub defined_codes: Vec<u8>,
    pub undefined_codes: Vec<u8>,
}
impl Typist {
    pub fn new(set: u8, r: &ScanRef) -> Typist {
        let mut keys = Vec::new();
        let mut make = Vec::new();
        let mut brk = Vec::new();
        for k in NAMED_KEYS.iter() {
            if let Some(m) = seq_for(r, set, *k, true) {
                keys.push(*k);
                make.push(m);
                brk.push(seq_for(r, set, *k, false).unwrap());
            }
        }
        let mut defined_codes = Vec::new();
        let mut undefined_codes = Vec::new();
        for c in 0..=255u8 {
            let code = if set == 1 { c & 0x7f } else { c };
            if r.table[0][code as usize].is_some() {
                defined_codes.push(c);
            } else {
                undefined_codes.push(c);
            }
        }
        Typist {
            set,
            keys,
            make,
            brk,
            defined_codes,
            undefined_codes,
        }
    }
    fn pause(&self) -> Vec<u8> {
        if self.set == 2 {
            vec![0xE1, 0x14, 0x77, 0xE1, 0xF0, 0x14, 0xF0, 0x77]
        } else {
            vec![0xE1, 0x1D, 0x45, 0xE1, 0x9D, 0xC5]
        }
    }
    fn printscreen(&self, down: bool) -> Vec<u8> {
        match (self.set, down) {
            (2, true) => vec![0xE0, 0x12, 0xE0, 0x7C],
            (2, false) => vec![0xE0, 0xF0, 0x7C, 0xE0, 0xF0, 0x12],
            (_, true) => vec![0xE0, 0x2A, 0xE0, 0x37],
            (_, false) => vec![0xE0, 0xB7, 0xE0, 0xAA],
        }
    }
    /// G3: well-formed typing (make, typematic repeats, chords, compound sequences)
    pub fn typing(&self, rng: &mut Rng, len: usize) -> Vec<u8> {
        let mut out = Vec::with_capacity(len + 16);
        let mut held: Vec<usize> = Vec::new();
        while out.len() < len {
            match rng.below(20) {
                0 => out.extend(self.pause()),
                1 => {
                    out.extend(self.printscreen(true));
                    out.extend(self.printscreen(false));
                }
                2..=4 if !held.is_empty() => {
                    let i = rng.below(held.len() as u64) as usize;
                    let k = held.swap_remove(i);
                    out.extend(&self.brk[k]);
                }
                5..=6 if !held.is_empty() => {
                    // typematic repeat of the most recent key
                    let k = *held.last().unwrap();
                    for _ in 0..1 + rng.below(3) {
                        out.extend(&self.make[k]);
                    }
                }
                7 if self.set == 2 => out.push(if rng.bit() { 0x00 } else { 0xAA }),
                _ => {
                    let k = rng.below(self.keys.len() as u64) as usize;
                    out.extend(&self.make[k]);
                    if rng.chance(1, 2) {
                        out.extend(&self.brk[k]);
                    } else if held.len() < 6 {
                        held.push(k);
                    } else {
                        out.extend(&self.brk[k]);
                    }
                }
            }
        }
        for k in held {
            out.extend(&self.brk[k]);
        }
        out
    }
    /// G4: G3 with transmission faults
    pub fn faulty_typing(&self, rng: &mut Rng, len: usize) -> Vec<u8> {
        let clean = self.typing(rng, len);
        let mut out = Vec::with_capacity(clean.len() + 8);
        for b in clean {
            match rng.below(40) {
                0 => {} // dropped byte
                1 => {
                    out.push(b);
                    out.push(b); // duplicated byte
                }
                2 => out.push(b ^ (1 << rng.below(8))), // single bit flip
                3 => {
                    out.push(*rng.pick(&[0x00u8, 0xAA, 0xEE, 0xFA, 0xFE, 0xFF, 0xFC]));
                    out.push(b);
                }
                4 => {
                    out.push(*rng.pick(&[0xE0u8, 0xE1, 0xF0]));
                    out.push(b);
                }
                _ => out.push(b),
            }
        }
        out
    }
    /// G2: prefix-heavy garbage
    pub fn prefix_heavy(&self, rng: &mut Rng, len: usize) -> Vec<u8> {
        (0..len)
            .map(|_| {
                if rng.bit() {
                    *rng.pick(&[0xE0u8, 0xE1, 0xF0])
                } else if rng.bit() {
                    *rng.pick(&self.defined_codes)
                } else {
                    *rng.pick(&self.undefined_codes)
                }
            })
            .collect()
    }
    pub fn generate(&self, which: usize, rng: &mut Rng, len: usize) -> Vec<u8> {
        match which {
            0 => (0..len).map(|_| rng.byte()).collect(),
            1 => self.prefix_heavy(rng, len),
            2 => self.typing(rng, len),
            _ => self.faulty_typing(rng, len),
        }
    }
}

/// Run `f(shard_index)` on `n` threads and collect the results in order.
pub fn par_map<T: Send + 'static>(n: usize, f: impl Fn(usize) -> T + Send + Sync + 'static) -> Vec<T> {
    let f = std::sync::Arc::new(f);
    let mut hs = Vec::new();
    for i in 0..n {
        let f = f.clone();
        hs.push(std::thread::Builder::new().stack_size(16 << 20).spawn(move || crate::report::guarded(|| f(i))).unwrap());
    }
    let mut out = Vec::new();
    for h in hs {
        match h.join() {
            Ok(Ok(v)) => out.push(v),
            // a panic that escaped every guarded section of a worker: re-raise it here with its original message
            Ok(Err(msg)) => panic!("worker: {}", msg),
            Err(_) => panic!("worker thread died"),
        }
    }
    out
}

pub fn n_threads() -> usize {
    std::env::var("VERIF_THREADS")
        .ok()
        .and_then(|s| s.parse().ok())
        .unwrap_or_else(|| std::thread::available_parallelism().map(|n| n.get()).unwrap_or(4).min(16))
}
