//! The layout observation cube: every `map_keycode` call of the real layouts, recorded once per
//! run (30 layout objects × key universe × 512 modifier sets × 2 Ctrl modes); the layout
//! properties are offline oracles over this one recorded table.

use crate::keys::*;
use crate::layouts::*;
use crate::report::*;
use crate::scan::{n_threads, par_map};
use pc_keyboard::{KeyCode, KeyboardLayout};

pub struct Cube {
    pub keys: Vec<KeyCode>,
    /// 10 known layouts + extras discovered in the tree (extras: the three forms are the same bare object)
    pub n_layouts: usize,
    /// [obj = li*3+form][key][mode][mods]
    pub data: Vec<u32>,
    pub calls: u64,
    pub panics: Vec<(usize, usize, usize, usize, u16, String)>, // li, form, key idx, mode, mods, msg
}

impl Cube {
    #[inline]
    pub fn idx(&self, li: usize, form: usize, ki: usize, mode: usize, mods: u16) -> usize {
        ((((li * 3 + form) * self.keys.len() + ki) * 2 + mode) << 9) | mods as usize
    }
    #[inline]
    pub fn get(&self, li: usize, form: usize, ki: usize, mode: usize, mods: u16) -> u32 {
        self.data[self.idx(li, form, ki, mode, mods)]
    }
    pub fn key_index(&self, k: KeyCode) -> Option<usize> {
        self.keys.iter().position(|x| *x == k)
    }
    pub fn show(&self, e: u32) -> String {
        enc_str(e, &self.keys)
    }

    pub fn build() -> Cube {
        let keys = universe();
        let nk = keys.len();
        let nl = n_layouts();
        let threads = n_threads().min(nl * 3);
        let keys2 = keys.clone();
        let shards = par_map(threads, move |t| {
            let mut out: Vec<(usize, Vec<u32>, Vec<(usize, usize, usize, usize, u16, String)>)> = Vec::new();
            let mut obj = t;
            while obj < nl * 3 {
                let (li, form) = (obj / 3, obj % 3);
                let lay = layout_obj(li, form);
                let mut v = vec![0u32; nk * 1024];
                let mut panics = Vec::new();
                for (ki, k) in keys2.iter().enumerate() {
                    for (mi, mode) in MODES.iter().enumerate() {
                        let base = (ki * 2 + mi) << 9;
                        // one guarded row; localise call by call only if it panicked
                        let row = guarded(|| {
                            let mut r = [0u32; 512];
                            for m in 0..512u16 {
                                r[m as usize] = dk_enc(lay.map_keycode(*k, &mods_from_bits(m), *mode));
                            }
                            r
                        });
                        match row {
                            Ok(r) => v[base..base + 512].copy_from_slice(&r),
                            Err(_) => {
                                for m in 0..512u16 {
                                    match guarded(|| dk_enc(lay.map_keycode(*k, &mods_from_bits(m), *mode))) {
                                        Ok(e) => v[base + m as usize] = e,
                                        Err(p) => {
                                            v[base + m as usize] = ENC_PANIC;
                                            if panics.len() < 200 {
                                                panics.push((li, form, ki, mi, m, p));
                                            }
                                        }
                                    }
                                }
                            }
                        }
                    }
                }
                out.push((obj, v, panics));
                obj += threads;
            }
            out
        });
        let mut data = vec![0u32; nl * 3 * nk * 1024];
        let mut panics = Vec::new();
        for shard in shards {
            for (obj, v, p) in shard {
                data[obj * nk * 1024..(obj + 1) * nk * 1024].copy_from_slice(&v);
                panics.extend(p);
            }
        }
        Cube {
            calls: (nl * 3 * nk * 1024) as u64,
            n_layouts: nl,
            keys,
            data,
            panics,
        }
    }
}

/// Direct call on a layout object (used by replay and by spot checks).
pub fn call_layout(lay: &dyn KeyboardLayout, k: KeyCode, mods: u16, mode: usize) -> Result<u32, String> {
    guarded(|| dk_enc(lay.map_keycode(k, &mods_from_bits(mods), MODES[mode])))
}
