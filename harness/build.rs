//! Discovers layouts the repository ships beyond the ten the harness knows by name, so that the reference-free
//! layout monitors ("every shipped layout") cover them too.  Scans <repo>/src/layouts/mod.rs for
//! `mod m; pub use self::m::T;` where src/layouts/m.rs declares the unit struct `pub struct T;` and implements
//! `KeyboardLayout for T`.  Anything it does not understand is ignored – this script never fails the build.
//!
//! The same for constructors: `pub [const] fn name(<only bool arguments>) -> Self|Type` other than `new` in an inherent
//! impl of ScancodeSet1, ScancodeSet2 or Ps2Decoder yields further start states of those decoders (one per combination
//! of argument values); the decoder monitors are repeated from each of them.  And for switches: `pub fn name(&mut self,
//! <only bool arguments>)` other than the known operations in an inherent impl of Keyboard is a further operation for
//! the hostile event histories.
use std::{env, fs, path::Path};

const KNOWN: [&str; 10] = [
    "Us104Key", "Uk105Key", "De105Key", "Azerty", "No105Key", "FiSe105Key", "Jis109Key", "Colemak", "Dvorak104Key", "DVP104Key",
];

/// (type name of the enclosing inherent impl, fn name, has &mut self, argument types, return type) of every `pub fn`
fn pub_fns(src: &str) -> Vec<(String, String, bool, Vec<String>, String)> {
    let mut out = Vec::new();
    // drop line comments so that examples in docs are not taken for code
    let clean: String = src.lines().map(|l| match l.find("//") { Some(i) => &l[..i], None => l }).collect::<Vec<_>>().join("\n");
    let mut current: Option<String> = None;
    let bytes = clean.as_bytes();
    let mut line_start = 0usize;
    while line_start < bytes.len() {
        let line_end = clean[line_start..].find('\n').map(|i| line_start + i).unwrap_or(bytes.len());
        let line = &clean[line_start..line_end];
        if line.starts_with("impl") {
            // `impl<L, S> Keyboard<L, S>` / `impl Ps2Decoder {` are inherent; `impl X for Y` is not
            let header_end = clean[line_start..].find('{').map(|i| line_start + i).unwrap_or(line_end);
            let header = &clean[line_start..header_end];
            current = None;
            if !header.contains(" for ") {
                let mut h = header["impl".len()..].trim_start();
                if h.starts_with('<') {
                    let mut depth = 0i32;
                    let mut cut = 0usize;
                    for (i, c) in h.char_indices() {
                        if c == '<' { depth += 1; }
                        if c == '>' { depth -= 1; if depth == 0 { cut = i + 1; break; } }
                    }
                    h = h[cut..].trim_start();
                }
                let name: String = h.chars().take_while(|c| c.is_ascii_alphanumeric() || *c == '_').collect();
                if !name.is_empty() {
                    current = Some(name);
                }
            }
        } else if line.starts_with('}') {
            current = None;
        } else if let Some(ty) = &current {
            let t = line.trim_start();
            let rest = t.strip_prefix("pub const fn ").or_else(|| t.strip_prefix("pub fn "));
            if let (Some(_), true) = (rest, line.starts_with("    ") && !line.starts_with("     ")) {
                // the signature may span lines: take everything up to the body's brace
                let sig_start = line_start + (line.len() - t.len());
                let sig_end = clean[sig_start..].find('{').map(|i| sig_start + i).unwrap_or(line_end);
                let sig = clean[sig_start..sig_end].replace('\n', " ");
                let sig = sig.trim_start_matches("pub const fn ").trim_start_matches("pub fn ");
                if let (Some(po), Some(pc)) = (sig.find('('), sig.rfind(')')) {
                    let name = sig[..po].trim().to_string();
                    let args_s = &sig[po + 1..pc];
                    let ret = sig[pc + 1..].trim().trim_start_matches("->").trim().to_string();
                    let mut has_mut_self = false;
                    let mut has_other_self = false;
                    let mut args = Vec::new();
                    for a in args_s.split(',') {
                        let a = a.trim();
                        if a.is_empty() { continue; }
                        if a == "&mut self" { has_mut_self = true; continue; }
                        if a == "&self" || a == "self" || a == "mut self" { has_other_self = true; continue; }
                        args.push(a.split(':').nth(1).unwrap_or("?").trim().to_string());
                    }
                    if !has_other_self && name.chars().all(|c| c.is_ascii_alphanumeric() || c == '_') && !name.contains('<') {
                        out.push((ty.clone(), name, has_mut_self, args, ret));
                    }
                }
            }
        }
        line_start = line_end + 1;
    }
    out
}

fn bool_combos(n: usize) -> Vec<Vec<bool>> {
    (0..(1usize << n)).map(|m| (0..n).map(|i| m >> i & 1 == 1).collect()).collect()
}

fn discover_api(repo: &str) -> String {
    let mut ctors: Vec<(String, String, Vec<bool>)> = Vec::new(); // type, fn, args
    let mut switches: Vec<(String, Vec<bool>)> = Vec::new();
    const KNOWN_KB_OPS: [&str; 8] = ["add_word", "add_byte", "add_bit", "process_keyevent", "set_ctrl_handling", "clear", "new", "get_modifiers"];
    for f in ["src/lib.rs", "src/scancodes/set1.rs", "src/scancodes/set2.rs"] {
        let path = format!("{}/{}", repo, f);
        println!("cargo:rerun-if-changed={}", path);
        let Ok(src) = fs::read_to_string(&path) else { continue };
        for (ty, name, mut_self, args, ret) in pub_fns(&src) {
            let only_bools = args.len() <= 3 && args.iter().all(|a| a == "bool");
            if !only_bools {
                continue;
            }
            if !mut_self && ["ScancodeSet1", "ScancodeSet2", "Ps2Decoder"].contains(&ty.as_str()) && name != "new" && (ret == "Self" || ret == ty) {
                for c in bool_combos(args.len()) {
                    ctors.push((ty.clone(), name.clone(), c));
                }
            }
            if mut_self && ty == "Keyboard" && !KNOWN_KB_OPS.contains(&name.as_str()) {
                for c in bool_combos(args.len()) {
                    switches.push((name.clone(), c));
                }
            }
        }
    }
    let show = |name: &str, a: &[bool]| format!("{}({})", name, a.iter().map(|b| b.to_string()).collect::<Vec<_>>().join(", "));
    let mut out = String::from("// discovered public API of the tree under test (generated by build.rs)\n");
    for (ty, fnname) in [("ScancodeSet1", "extra_ctors_set1"), ("ScancodeSet2", "extra_ctors_set2"), ("Ps2Decoder", "extra_ctors_ps2")] {
        let mine: Vec<_> = ctors.iter().filter(|c| c.0 == ty).collect();
        out.push_str(&format!("pub fn {}() -> &'static [(&'static str, fn() -> pc_keyboard::{})] {{\n    &[", fnname, ty));
        for (_, name, a) in mine {
            out.push_str(&format!("(\"{}\", || pc_keyboard::{}::{}), ", show(name, a), ty, show(name, a)));
        }
        out.push_str("]\n}\n");
    }
    out.push_str("pub fn extra_kb_op_names() -> &'static [&'static str] {\n    &[");
    for (name, a) in &switches {
        out.push_str(&format!("\"{}\", ", show(name, a)));
    }
    out.push_str("]\n}\n/// apply the discovered operation number `$i` to any `Keyboard<_, _>`\nmacro_rules! extra_kb_op {\n    ($kb:expr, $i:expr) => {\n        match $i {\n");
    for (i, (name, a)) in switches.iter().enumerate() {
        out.push_str(&format!("            {} => {{ let _ = $kb.{}; }}\n", i, show(name, a)));
    }
    out.push_str("            _ => {}\n        }\n    };\n}\n");
    out
}

/// Array literals of key codes and of bytes spelled out in the tree's source ("magic sequences": a recogniser for a
/// particular run of keys or bytes has to name them somewhere).  They become workloads of their own.
fn magic_sequences(repo: &str) -> (Vec<Vec<String>>, Vec<Vec<u8>>) {
    fn rs_files(dir: &Path, out: &mut Vec<std::path::PathBuf>) {
        if let Ok(rd) = fs::read_dir(dir) {
            let mut v: Vec<_> = rd.flatten().map(|e| e.path()).collect();
            v.sort();
            for p in v {
                if p.is_dir() {
                    rs_files(&p, out);
                } else if p.extension().map(|e| e == "rs").unwrap_or(false) {
                    out.push(p);
                }
            }
        }
    }
    let mut files = Vec::new();
    rs_files(&Path::new(repo).join("src"), &mut files);
    let mut keys: Vec<Vec<String>> = Vec::new();
    let mut bytes: Vec<Vec<u8>> = Vec::new();
    let num = |t: &str| -> Option<u64> {
        let t = t.trim().replace('_', "");
        let t = t.trim_end_matches("u8").trim_end_matches("u16").trim_end_matches("u32").trim_end_matches("u64");
        if let Some(h) = t.strip_prefix("0x") {
            u64::from_str_radix(h, 16).ok()
        } else {
            t.parse::<u64>().ok()
        }
    };
    for f in files {
        println!("cargo:rerun-if-changed={}", f.display());
        let Ok(src) = fs::read_to_string(&f) else { continue };
        let src: String = src.lines().map(|l| match l.find("//") { Some(i) => &l[..i], None => l }).collect::<Vec<_>>().join("\n");
        let b = src.as_bytes();
        // innermost bracketed spans
        let mut i = 0;
        while i < b.len() {
            if b[i] == b'[' {
                let mut j = i + 1;
                while j < b.len() && b[j] != b']' && b[j] != b'[' {
                    j += 1;
                }
                if j < b.len() && b[j] == b']' {
                    let inner = &src[i + 1..j];
                    let items: Vec<&str> = inner.split(',').map(|x| x.trim()).filter(|x| !x.is_empty()).collect();
                    if (2..=16).contains(&items.len()) {
                        let ks: Vec<String> = items
                            .iter()
                            .filter_map(|it| {
                                let it = it.trim_start_matches("Some(").trim_end_matches(')');
                                let name = it.rsplit("KeyCode::").next()?;
                                if it.contains("KeyCode::") && !name.is_empty() && name.chars().all(|c| c.is_ascii_alphanumeric()) {
                                    Some(name.to_string())
                                } else {
                                    None
                                }
                            })
                            .collect();
                        if ks.len() == items.len() && !keys.contains(&ks) && keys.len() < 24 {
                            keys.push(ks);
                        }
                        let ns: Vec<u64> = items.iter().filter_map(|it| num(it)).collect();
                        if ns.len() == items.len() && ns.iter().all(|n| *n <= 0xFF) {
                            let v: Vec<u8> = ns.iter().map(|n| *n as u8).collect();
                            if !bytes.contains(&v) && bytes.len() < 24 {
                                bytes.push(v);
                            }
                        }
                    }
                    i = j;
                }
            }
            i += 1;
        }
        // long hexadecimal literals: a byte pattern packed into one integer
        for tok in src.split(|c: char| !(c.is_ascii_alphanumeric() || c == '_')) {
            if tok.starts_with("0x") && tok.replace('_', "").len() >= 2 + 5 {
                if let Some(n) = num(tok) {
                    let mut v: Vec<u8> = n.to_be_bytes().iter().copied().skip_while(|x| *x == 0).collect();
                    if (2..=8).contains(&v.len()) && bytes.len() < 24 {
                        if !bytes.contains(&v) {
                            bytes.push(v.clone());
                        }
                        v.reverse();
                        if !bytes.contains(&v) {
                            bytes.push(v);
                        }
                    }
                }
            }
        }
    }
    (keys, bytes)
}

fn main() {
    println!("cargo:rerun-if-env-changed=VERIF_REPO");
    let repo = env::var("VERIF_REPO").unwrap_or_else(|_| "/repo".to_string());
    let modrs = format!("{}/src/layouts/mod.rs", repo);
    println!("cargo:rerun-if-changed={}", modrs);
    let mut extras: Vec<String> = Vec::new();
    if let Ok(txt) = fs::read_to_string(&modrs) {
        for line in txt.lines() {
            let l = line.trim();
            // pub use self::dk105::Dk105Key;
            let Some(rest) = l.strip_prefix("pub use self::") else { continue };
            let Some(rest) = rest.strip_suffix(';') else { continue };
            let mut it = rest.split("::");
            let (Some(m), Some(t), None) = (it.next(), it.next(), it.next()) else { continue };
            if KNOWN.contains(&t) || !t.chars().all(|c| c.is_ascii_alphanumeric() || c == '_') || !m.chars().all(|c| c.is_ascii_alphanumeric() || c == '_') {
                continue;
            }
            let file = format!("{}/src/layouts/{}.rs", repo, m);
            println!("cargo:rerun-if-changed={}", file);
            let Ok(src) = fs::read_to_string(&file) else { continue };
            let unit = src.contains(&format!("pub struct {};", t));
            let implemented = src.contains(&format!("KeyboardLayout for {} ", t)) || src.contains(&format!("KeyboardLayout for {}{{", t));
            if unit && implemented && !extras.contains(&t.to_string()) {
                extras.push(t.to_string());
            }
        }
    }
    let mut out = String::from("/// layouts shipped by the tree under test that the harness does not know by name (generated by build.rs)\npub fn extra_layout_names() -> Vec<&'static str> {\n    vec![");
    for t in &extras {
        out.push_str(&format!("\"{}\", ", t));
    }
    out.push_str("]\n}\npub fn extra_layout(i: usize) -> Box<dyn pc_keyboard::KeyboardLayout> {\n    match i {\n");
    for (i, t) in extras.iter().enumerate() {
        out.push_str(&format!("        {} => Box::new(pc_keyboard::layouts::{}),\n", i, t));
    }
    out.push_str("        _ => panic!(\"extra layout index\"),\n    }\n}\n");
    out.push_str(&discover_api(&repo));
    // implementations of KeyboardLayout the harness cannot build a value of (generic adapters, types with fields):
    // listed in the evidence of the layout properties as NOT covered
    let mut unknown: Vec<String> = Vec::new();
    let mut files = vec![format!("{}/src/lib.rs", repo)];
    if let Ok(rd) = fs::read_dir(format!("{}/src/layouts", repo)) {
        for e in rd.flatten() {
            files.push(e.path().to_string_lossy().into_owned());
        }
    }
    files.sort();
    for f in files {
        let Ok(src) = fs::read_to_string(&f) else { continue };
        println!("cargo:rerun-if-changed={}", f);
        for (i, _) in src.match_indices("KeyboardLayout for ") {
            // only `impl … KeyboardLayout for T`, not prose
            let line_start = src[..i].rfind('\n').map(|x| x + 1).unwrap_or(0);
            if !src[line_start..i].trim_start().starts_with("impl") {
                continue;
            }
            let rest = &src[i + "KeyboardLayout for ".len()..];
            let t: String = rest.chars().take_while(|c| c.is_ascii_alphanumeric() || *c == '_' || *c == '&').collect();
            let t = t.trim_start_matches('&').to_string();
            if t.is_empty() || t == "AnyLayout" || KNOWN.contains(&t.as_str()) || extras.contains(&t) || unknown.contains(&t) {
                continue;
            }
            unknown.push(t);
        }
    }
    let (mkeys, mbytes) = magic_sequences(&repo);
    out.push_str("/// runs of key codes / bytes spelled out as array literals (or packed hex literals) in the tree's source\npub fn magic_key_sequences() -> Vec<Vec<pc_keyboard::KeyCode>> {\n    vec![\n");
    for ks in &mkeys {
        out.push_str("        vec![");
        for k in ks {
            out.push_str(&format!("pc_keyboard::KeyCode::{}, ", k));
        }
        out.push_str("],\n");
    }
    out.push_str("    ]\n}\npub fn magic_byte_sequences() -> Vec<Vec<u8>> {\n    vec![\n");
    for bs in &mbytes {
        out.push_str(&format!("        vec!{:?},\n", bs));
    }
    out.push_str("    ]\n}\n");
    // key codes that src/lib.rs (the decoders; the layouts live elsewhere) mentions in code: whatever treats a particular
    // key specially has to name it
    let mut named: Vec<String> = Vec::new();
    if let Ok(src) = fs::read_to_string(format!("{}/src/lib.rs", repo)) {
        let src: String = src.lines().map(|l| match l.find("//") { Some(i) => &l[..i], None => l }).collect::<Vec<_>>().join("\n");
        // the unit tests at the end of the file name keys for their own purposes
        let src = match src.find("#[cfg(test)]") {
            Some(i) => src[..i].to_string(),
            None => src,
        };
        for (i, _) in src.match_indices("KeyCode::") {
            let name: String = src[i + 9..].chars().take_while(|c| c.is_ascii_alphanumeric()).collect();
            if !name.is_empty() && name.chars().next().unwrap().is_ascii_uppercase() && !named.contains(&name) && named.len() < 64 {
                named.push(name);
            }
        }
    }
    out.push_str("pub fn decoder_named_keys() -> Vec<pc_keyboard::KeyCode> {\n    vec![");
    for k in &named {
        out.push_str(&format!("pc_keyboard::KeyCode::{}, ", k));
    }
    out.push_str("]\n}\n");
    out.push_str("pub fn unmonitored_layout_impls() -> &'static [&'static str] {\n    &[");
    for t in &unknown {
        out.push_str(&format!("\"{}\", ", t));
    }
    out.push_str("]\n}\n");
    let dest = Path::new(&env::var("OUT_DIR").unwrap()).join("extra_layouts.rs");
    fs::write(dest, out).unwrap();
}
