//! C20 probe, run-time twin: every public constructor / accessor / predicate used in an
//! ordinary function.  If this does not build the probe cannot observe anything (INCONCLUSIVE).
#![allow(non_snake_case)]
use c20_shared::BigLayout;
use pc_keyboard::layouts::*;
use pc_keyboard::*;

macro_rules! probe_all {
    ($($n:ident : $t:ty = $e:expr;)*) => {
        pub mod fns {
            use super::*;
            $(pub fn $n() -> $t { $e })*
        }
        pub const NAMES: &[&str] = &[$(stringify!($n)),*];
    };
}
include!("../../uses.rs");
