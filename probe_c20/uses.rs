// One list of every public constructor / const accessor / predicate use, expanded three ways:
//   konst  → `const` items and `static` initialisers in a #![no_std] crate (+ Send/Sync assertions)
//   plain  → ordinary run-time functions (must build, or the probe cannot observe anything)
//   runner → pairwise comparison of the const-built, static-built and run-time-built values
probe_all! {
    PS2: Ps2Decoder = Ps2Decoder::new();
    SET1: ScancodeSet1 = ScancodeSet1::new();
    SET2: ScancodeSet2 = ScancodeSet2::new();
    EVENT: KeyEvent = KeyEvent::new(KeyCode::NumpadLock, KeyState::Down);

    ED_US: EventDecoder<Us104Key> = EventDecoder::new(Us104Key, HandleControl::Ignore);
    ED_UK: EventDecoder<Uk105Key> = EventDecoder::new(Uk105Key, HandleControl::MapLettersToUnicode);
    ED_DE: EventDecoder<De105Key> = EventDecoder::new(De105Key, HandleControl::Ignore);
    ED_AZ: EventDecoder<Azerty> = EventDecoder::new(Azerty, HandleControl::MapLettersToUnicode);
    ED_NO: EventDecoder<No105Key> = EventDecoder::new(No105Key, HandleControl::Ignore);
    ED_FI: EventDecoder<FiSe105Key> = EventDecoder::new(FiSe105Key, HandleControl::MapLettersToUnicode);
    ED_JIS: EventDecoder<Jis109Key> = EventDecoder::new(Jis109Key, HandleControl::Ignore);
    ED_COL: EventDecoder<Colemak> = EventDecoder::new(Colemak, HandleControl::MapLettersToUnicode);
    ED_DV: EventDecoder<Dvorak104Key> = EventDecoder::new(Dvorak104Key, HandleControl::Ignore);
    ED_DVP: EventDecoder<DVP104Key> = EventDecoder::new(DVP104Key, HandleControl::MapLettersToUnicode);
    ED_ANY: EventDecoder<AnyLayout> = EventDecoder::new(AnyLayout::De105Key(De105Key), HandleControl::Ignore);

    KB_US_S1: Keyboard<Us104Key, ScancodeSet1> = Keyboard::new(ScancodeSet1::new(), Us104Key, HandleControl::MapLettersToUnicode);
    KB_UK_S1: Keyboard<Uk105Key, ScancodeSet1> = Keyboard::new(ScancodeSet1::new(), Uk105Key, HandleControl::Ignore);
    KB_DE_S1: Keyboard<De105Key, ScancodeSet1> = Keyboard::new(ScancodeSet1::new(), De105Key, HandleControl::MapLettersToUnicode);
    KB_AZ_S1: Keyboard<Azerty, ScancodeSet1> = Keyboard::new(ScancodeSet1::new(), Azerty, HandleControl::Ignore);
    KB_NO_S1: Keyboard<No105Key, ScancodeSet1> = Keyboard::new(ScancodeSet1::new(), No105Key, HandleControl::MapLettersToUnicode);
    KB_FI_S1: Keyboard<FiSe105Key, ScancodeSet1> = Keyboard::new(ScancodeSet1::new(), FiSe105Key, HandleControl::Ignore);
    KB_JIS_S1: Keyboard<Jis109Key, ScancodeSet1> = Keyboard::new(ScancodeSet1::new(), Jis109Key, HandleControl::MapLettersToUnicode);
    KB_COL_S1: Keyboard<Colemak, ScancodeSet1> = Keyboard::new(ScancodeSet1::new(), Colemak, HandleControl::Ignore);
    KB_DV_S1: Keyboard<Dvorak104Key, ScancodeSet1> = Keyboard::new(ScancodeSet1::new(), Dvorak104Key, HandleControl::MapLettersToUnicode);
    KB_DVP_S1: Keyboard<DVP104Key, ScancodeSet1> = Keyboard::new(ScancodeSet1::new(), DVP104Key, HandleControl::Ignore);
    KB_ANY_S1: Keyboard<AnyLayout, ScancodeSet1> = Keyboard::new(ScancodeSet1::new(), AnyLayout::Azerty(Azerty), HandleControl::MapLettersToUnicode);
    KB_REF_S1: Keyboard<&'static AnyLayout, ScancodeSet1> = Keyboard::new(ScancodeSet1::new(), &AnyLayout::No105Key(No105Key), HandleControl::Ignore);

    KB_US_S2: Keyboard<Us104Key, ScancodeSet2> = Keyboard::new(ScancodeSet2::new(), Us104Key, HandleControl::MapLettersToUnicode);
    KB_UK_S2: Keyboard<Uk105Key, ScancodeSet2> = Keyboard::new(ScancodeSet2::new(), Uk105Key, HandleControl::Ignore);
    KB_DE_S2: Keyboard<De105Key, ScancodeSet2> = Keyboard::new(ScancodeSet2::new(), De105Key, HandleControl::MapLettersToUnicode);
    KB_AZ_S2: Keyboard<Azerty, ScancodeSet2> = Keyboard::new(ScancodeSet2::new(), Azerty, HandleControl::Ignore);
    KB_NO_S2: Keyboard<No105Key, ScancodeSet2> = Keyboard::new(ScancodeSet2::new(), No105Key, HandleControl::MapLettersToUnicode);
    KB_FI_S2: Keyboard<FiSe105Key, ScancodeSet2> = Keyboard::new(ScancodeSet2::new(), FiSe105Key, HandleControl::Ignore);
    KB_JIS_S2: Keyboard<Jis109Key, ScancodeSet2> = Keyboard::new(ScancodeSet2::new(), Jis109Key, HandleControl::MapLettersToUnicode);
    KB_COL_S2: Keyboard<Colemak, ScancodeSet2> = Keyboard::new(ScancodeSet2::new(), Colemak, HandleControl::Ignore);
    KB_DV_S2: Keyboard<Dvorak104Key, ScancodeSet2> = Keyboard::new(ScancodeSet2::new(), Dvorak104Key, HandleControl::MapLettersToUnicode);
    KB_DVP_S2: Keyboard<DVP104Key, ScancodeSet2> = Keyboard::new(ScancodeSet2::new(), DVP104Key, HandleControl::Ignore);
    KB_ANY_S2: Keyboard<AnyLayout, ScancodeSet2> = Keyboard::new(ScancodeSet2::new(), AnyLayout::Jis109Key(Jis109Key), HandleControl::MapLettersToUnicode);
    KB_REF_S2: Keyboard<&'static AnyLayout, ScancodeSet2> = Keyboard::new(ScancodeSet2::new(), &AnyLayout::Colemak(Colemak), HandleControl::Ignore);

    // const accessors and predicates evaluated inside the initialiser
    ACC_NUMLOCK: bool = Keyboard::new(ScancodeSet2::new(), Us104Key, HandleControl::Ignore).get_modifiers().numlock;
    ACC_CAPSLOCK: bool = Keyboard::new(ScancodeSet1::new(), AnyLayout::Uk105Key(Uk105Key), HandleControl::Ignore).get_modifiers().capslock;
    ACC_MODE_KB: HandleControl = Keyboard::new(ScancodeSet1::new(), Jis109Key, HandleControl::MapLettersToUnicode).get_ctrl_handling();
    ACC_MODE_ED: HandleControl = EventDecoder::new(DVP104Key, HandleControl::Ignore).get_ctrl_handling();
    PRED_SHIFTED: bool = Modifiers { lshift: false, rshift: true, lctrl: false, rctrl: false, numlock: true, capslock: false, lalt: false, ralt: false, rctrl2: false }.is_shifted();
    PRED_CTRL: bool = Modifiers { lshift: false, rshift: false, lctrl: false, rctrl: true, numlock: true, capslock: false, lalt: false, ralt: false, rctrl2: true }.is_ctrl();
    PRED_ALT: bool = Modifiers { lshift: false, rshift: false, lctrl: false, rctrl: false, numlock: true, capslock: false, lalt: true, ralt: false, rctrl2: false }.is_alt();
    PRED_ALTGR: bool = Modifiers { lshift: false, rshift: false, lctrl: true, rctrl: false, numlock: false, capslock: false, lalt: true, ralt: false, rctrl2: false }.is_altgr();
    PRED_NOT_ALTGR: bool = Modifiers { lshift: false, rshift: false, lctrl: false, rctrl: false, numlock: false, capslock: false, lalt: true, ralt: false, rctrl2: true }.is_altgr();
    PRED_CAPS: bool = Modifiers { lshift: true, rshift: false, lctrl: false, rctrl: false, numlock: false, capslock: true, lalt: false, ralt: false, rctrl2: false }.is_caps();
}
