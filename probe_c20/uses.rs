// One list of every public constructor / const accessor / predicate use, expanded three ways:
//   konst  → `const` items and `static` initialisers in a #![no_std] crate (+ Send/Sync assertions)
//   plain  → ordinary run-time functions (must build, or the probe cannot observe anything)
//   runner → pairwise comparison of the const-built, static-built and run-time-built values
probe_all! {
    PS2: Ps2Decoder = Ps2Decoder::new();
    SET1: ScancodeSet1 = ScancodeSet1::new();
    SET2: ScancodeSet2 = ScancodeSet2::new();
    EVENT: KeyEvent = KeyEvent::new(KeyCode::NumpadLock, KeyState::Down);

    ED_US: EventDecoder<Us104Key> = EventDecoder::new(Us104Key, HandleControl::Ignore);
    ED_UK: EventDecoder<Uk105Key> = EventDecoder::new(Uk105Key, HandleControl::MapLettersToUnicode);
    ED_DE: EventDecoder<De105Key> = EventDecoder::new(De105Key, HandleControl::Ignore);
    ED_AZ: EventDecoder<Azerty> = EventDecoder::new(Azerty, HandleControl::MapLettersToUnicode);
    ED_NO: EventDecoder<No105Key> = EventDecoder::new(No105Key, HandleControl::Ignore);
    ED_FI: EventDecoder<FiSe105Key> = EventDecoder::new(FiSe105Key, HandleControl::MapLettersToUnicode);
    ED_JIS: EventDecoder<Jis109Key> = EventDecoder::new(Jis109Key, HandleControl::Ignore);
    ED_COL: EventDecoder<Colemak> = EventDecoder::new(Colemak, HandleControl::MapLettersToUnicode);
    ED_DV: EventDecoder<Dvorak104Key> = EventDecoder::new(Dvorak104Key, HandleControl::Ignore);
    ED_DVP: EventDecoder<DVP104Key> = EventDecoder::new(DVP104Key, HandleControl::MapLettersToUnicode);
    ED_ANY: EventDecoder<AnyLayout> = EventDecoder::new(AnyLayout::De105Key(De105Key), HandleControl::Ignore);

    KB_US_S1: Keyboard<Us104Key, ScancodeSet1> = Keyboard::new(ScancodeSet1::new(), Us104Key, HandleControl::MapLettersToUnicode);
    KB_UK_S1: Keyboard<Uk105Key, ScancodeSet1> = Keyboard::new(ScancodeSet1::new(), Uk105Key, HandleControl::Ignore);
    KB_DE_S1: Keyboard<De105Key, ScancodeSet1> = Keyboard::new(ScancodeSet1::new(), De105Key, HandleControl::MapLettersToUnicode);
    KB_AZ_S1: Keyboard<Azerty, ScancodeSet1> = Keyboard::new(ScancodeSet1::new(), Azerty, HandleControl::Ignore);
    KB_NO_S1: Keyboard<No105Key, ScancodeSet1> = Keyboard::new(ScancodeSet1::new(), No105Key, HandleControl::MapLettersToUnicode);
    KB_FI_S1: Keyboard<FiSe105Key, ScancodeSet1> = Keyboard::new(ScancodeSet1::new(), FiSe105Key, HandleControl::Ignore);
    KB_JIS_S1: Keyboard<Jis109Key, ScancodeSet1> = Keyboard::new(ScancodeSet1::new(), Jis109Key, HandleControl::MapLettersToUnicode);
    KB_COL_S1: Keyboard<Colemak, ScancodeSet1> = Keyboard::new(ScancodeSet1::new(), Colemak, HandleControl::Ignore);
    KB_DV_S1: Keyboard<Dvorak104Key, ScancodeSet1> = Keyboard::new(ScancodeSet1::new(), Dvorak104Key, HandleControl::MapLettersToUnicode);
    KB_DVP_S1: Keyboard<DVP104Key, ScancodeSet1> = Keyboard::new(ScancodeSet1::new(), DVP104Key, HandleControl::Ignore);
    KB_ANY_S1: Keyboard<AnyLayout, ScancodeSet1> = Keyboard::new(ScancodeSet1::new(), AnyLayout::Azerty(Azerty), HandleControl::MapLettersToUnicode);
    KB_REF_S1: Keyboard<&'static AnyLayout, ScancodeSet1> = Keyboard::new(ScancodeSet1::new(), &AnyLayout::No105Key(No105Key), HandleControl::Ignore);

    KB_US_S2: Keyboard<Us104Key, ScancodeSet2> = Keyboard::new(ScancodeSet2::new(), Us104Key, HandleControl::MapLettersToUnicode);
    KB_UK_S2: Keyboard<Uk105Key, ScancodeSet2> = Keyboard::new(ScancodeSet2::new(), Uk105Key, HandleControl::Ignore);
    KB_DE_S2: Keyboard<De105Key, ScancodeSet2> = Keyboard::new(ScancodeSet2::new(), De105Key, HandleControl::MapLettersToUnicode);
    KB_AZ_S2: Keyboard<Azerty, ScancodeSet2> = Keyboard::new(ScancodeSet2::new(), Azerty, HandleControl::Ignore);
    KB_NO_S2: Keyboard<No105Key, ScancodeSet2> = Keyboard::new(ScancodeSet2::new(), No105Key, HandleControl::MapLettersToUnicode);
    KB_FI_S2: Keyboard<FiSe105Key, ScancodeSet2> = Keyboard::new(ScancodeSet2::new(), FiSe105Key, HandleControl::Ignore);
    KB_JIS_S2: Keyboard<Jis109Key, ScancodeSet2> = Keyboard::new(ScancodeSet2::new(), Jis109Key, HandleControl::MapLettersToUnicode);
    KB_COL_S2: Keyboard<Colemak, ScancodeSet2> = Keyboard::new(ScancodeSet2::new(), Colemak, HandleControl::Ignore);
    KB_DV_S2: Keyboard<Dvorak104Key, ScancodeSet2> = Keyboard::new(ScancodeSet2::new(), Dvorak104Key, HandleControl::MapLettersToUnicode);
    KB_DVP_S2: Keyboard<DVP104Key, ScancodeSet2> = Keyboard::new(ScancodeSet2::new(), DVP104Key, HandleControl::Ignore);
    KB_ANY_S2: Keyboard<AnyLayout, ScancodeSet2> = Keyboard::new(ScancodeSet2::new(), AnyLayout::Jis109Key(Jis109Key), HandleControl::MapLettersToUnicode);
    KB_REF_S2: Keyboard<&'static AnyLayout, ScancodeSet2> = Keyboard::new(ScancodeSet2::new(), &AnyLayout::Colemak(Colemak), HandleControl::Ignore);

    // const accessors and predicates evaluated inside the initialiser
    ACC_NUMLOCK: bool = Keyboard::new(ScancodeSet2::new(), Us104Key, HandleControl::Ignore).get_modifiers().numlock;
    ACC_CAPSLOCK: bool = Keyboard::new(ScancodeSet1::new(), AnyLayout::Uk105Key(Uk105Key), HandleControl::Ignore).get_modifiers().capslock;
    ACC_MODE_KB: HandleControl = Keyboard::new(ScancodeSet1::new(), Jis109Key, HandleControl::MapLettersToUnicode).get_ctrl_handling();
    ACC_MODE_ED: HandleControl = EventDecoder::new(DVP104Key, HandleControl::Ignore).get_ctrl_handling();
    PRED_SHIFTED: bool = Modifiers { lshift: false, rshift: true, lctrl: false, rctrl: false, numlock: true, capslock: false, lalt: false, ralt: false, rctrl2: false }.is_shifted();
    PRED_CTRL: bool = Modifiers { lshift: false, rshift: false, lctrl: false, rctrl: true, numlock: true, capslock: false, lalt: false, ralt: false, rctrl2: true }.is_ctrl();
    PRED_ALT: bool = Modifiers { lshift: false, rshift: false, lctrl: false, rctrl: false, numlock: true, capslock: false, lalt: true, ralt: false, rctrl2: false }.is_alt();
    PRED_ALTGR: bool = Modifiers { lshift: false, rshift: false, lctrl: true, rctrl: false, numlock: false, capslock: false, lalt: true, ralt: false, rctrl2: false }.is_altgr();
    PRED_NOT_ALTGR: bool = Modifiers { lshift: false, rshift: false, lctrl: false, rctrl: false, numlock: false, capslock: false, lalt: true, ralt: false, rctrl2: true }.is_altgr();
    PRED_CAPS: bool = Modifiers { lshift: true, rshift: false, lctrl: false, rctrl: false, numlock: false, capslock: true, lalt: false, ralt: false, rctrl2: false }.is_caps();

    // a user-defined layout (12 KiB of tables): the trait is public, decoders over it must be constructible the same way
    ED_BIG: EventDecoder<BigLayout> = EventDecoder::new(BigLayout::filled('x'), HandleControl::Ignore);
    KB_BIG_S1: Keyboard<BigLayout, ScancodeSet1> = Keyboard::new(ScancodeSet1::new(), BigLayout::filled('y'), HandleControl::MapLettersToUnicode);
    KB_BIG_S2: Keyboard<BigLayout, ScancodeSet2> = Keyboard::new(ScancodeSet2::new(), BigLayout::filled('z'), HandleControl::Ignore);

    // every key code through the const constructor (a const fn whose cost or validity depends on the key), and the
    // five predicates on all 512 modifier values, folded into one number each
    EVENTS_ALL_KEYS: u32 = {
        let ks = [KeyCode::Escape, KeyCode::F1, KeyCode::F2, KeyCode::F3, KeyCode::F4, KeyCode::F5, KeyCode::F6, KeyCode::F7, KeyCode::F8, KeyCode::F9, KeyCode::F10, KeyCode::F11, KeyCode::F12, KeyCode::PrintScreen, KeyCode::SysRq, KeyCode::ScrollLock, KeyCode::PauseBreak, KeyCode::Oem8, KeyCode::Key1, KeyCode::Key2, KeyCode::Key3, KeyCode::Key4, KeyCode::Key5, KeyCode::Key6, KeyCode::Key7, KeyCode::Key8, KeyCode::Key9, KeyCode::Key0, KeyCode::OemMinus, KeyCode::OemPlus, KeyCode::Backspace, KeyCode::Insert, KeyCode::Home, KeyCode::PageUp, KeyCode::NumpadLock, KeyCode::NumpadDivide, KeyCode::NumpadMultiply, KeyCode::NumpadSubtract, KeyCode::Tab, KeyCode::Q, KeyCode::W, KeyCode::E, KeyCode::R, KeyCode::T, KeyCode::Y, KeyCode::U, KeyCode::I, KeyCode::O, KeyCode::P, KeyCode::Oem4, KeyCode::Oem6, KeyCode::Oem5, KeyCode::Oem7, KeyCode::Delete, KeyCode::End, KeyCode::PageDown, KeyCode::Numpad7, KeyCode::Numpad8, KeyCode::Numpad9, KeyCode::NumpadAdd, KeyCode::CapsLock, KeyCode::A, KeyCode::S, KeyCode::D, KeyCode::F, KeyCode::G, KeyCode::H, KeyCode::J, KeyCode::K, KeyCode::L, KeyCode::Oem1, KeyCode::Oem3, KeyCode::Return, KeyCode::Numpad4, KeyCode::Numpad5, KeyCode::Numpad6, KeyCode::LShift, KeyCode::Z, KeyCode::X, KeyCode::C, KeyCode::V, KeyCode::B, KeyCode::N, KeyCode::M, KeyCode::OemComma, KeyCode::OemPeriod, KeyCode::Oem2, KeyCode::RShift, KeyCode::ArrowUp, KeyCode::Numpad1, KeyCode::Numpad2, KeyCode::Numpad3, KeyCode::NumpadEnter, KeyCode::LControl, KeyCode::LWin, KeyCode::LAlt, KeyCode::Spacebar, KeyCode::RAltGr, KeyCode::RWin, KeyCode::Apps, KeyCode::RControl, KeyCode::ArrowLeft, KeyCode::ArrowDown, KeyCode::ArrowRight, KeyCode::Numpad0, KeyCode::NumpadPeriod, KeyCode::Oem9, KeyCode::Oem10, KeyCode::Oem11, KeyCode::Oem12, KeyCode::Oem13, KeyCode::PrevTrack, KeyCode::NextTrack, KeyCode::Mute, KeyCode::Calculator, KeyCode::Play, KeyCode::Stop, KeyCode::VolumeDown, KeyCode::VolumeUp, KeyCode::WWWHome, KeyCode::PowerOnTestOk, KeyCode::TooManyKeys, KeyCode::RControl2, KeyCode::RAlt2];
        let sts = [KeyState::Down, KeyState::Up, KeyState::SingleShot];
        let mut i = 0;
        let mut acc = 0u32;
        while i < ks.len() * 3 {
            let ev = KeyEvent::new(ks[i / 3], sts[i % 3]);
            acc = acc.wrapping_mul(31).wrapping_add(ev.code as u32 * 3 + ev.state as u32);
            i += 1;
        }
        acc
    };
    PRED_ALL_MODIFIER_VALUES: u32 = {
        let mut i = 0u32;
        let mut acc = 0u32;
        while i < 512 {
            let m = Modifiers { lshift: i & 1 != 0, rshift: i & 2 != 0, lctrl: i & 4 != 0, rctrl: i & 8 != 0, numlock: i & 16 != 0, capslock: i & 32 != 0, lalt: i & 64 != 0, ralt: i & 128 != 0, rctrl2: i & 256 != 0 };
            acc = acc.wrapping_mul(33) ^ ((m.is_shifted() as u32) | (m.is_ctrl() as u32) << 1 | (m.is_alt() as u32) << 2 | (m.is_altgr() as u32) << 3 | (m.is_caps() as u32) << 4);
            i += 1;
        }
        acc
    };
}
