//! C20 probe: the same uses as `c20-plain`, but as `const` items and `static` initialisers of a
//! `#![no_std]` crate, plus Send + Sync assertions for every type involved.  `rustc` decides
//! const-evaluability while this crate is built; ./check turns "plain builds, konst does not"
//! into VIOLATION property=C20 with the compiler diagnostics as the replay file.
#![no_std]
use c20_shared::BigLayout;
use pc_keyboard::layouts::*;
use pc_keyboard::*;

pub const fn assert_send_sync<T: Send + Sync>() {}

macro_rules! probe_all {
    ($($n:ident : $t:ty = $e:expr;)*) => {
        pub mod consts {
            use super::*;
            $(pub const $n: $t = $e;)*
        }
        pub mod statics {
            use super::*;
            $(pub static $n: $t = $e;)*
        }
        /// reference-valued constants (`const K: &Keyboard<..> = &Keyboard::new(..)`): rejected by rustc as soon as a
        /// type acquires interior mutability, even if it stays Send + Sync
        pub mod const_refs {
            use super::*;
            $(pub const $n: &$t = &$e;)*
        }
        pub const NAMES: &[&str] = &[$(stringify!($n)),*];
        pub const SEND_SYNC_ASSERTED: usize = {
            let mut n = 0;
            $( assert_send_sync::<$t>(); n += 1; )*
            n
        };
    };
}
include!("../../uses.rs");

// the remaining public state types
pub const OTHER_SEND_SYNC: () = {
    assert_send_sync::<Modifiers>();
    assert_send_sync::<KeyCode>();
    assert_send_sync::<KeyState>();
    assert_send_sync::<DecodedKey>();
    assert_send_sync::<Error>();
    assert_send_sync::<AnyLayout>();
};
