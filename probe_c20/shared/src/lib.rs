//! A user-defined layout of a realistic "table" shape (three levels of 1024 characters, 12 KiB): the public trait is
//! meant to be implemented by users, and a decoder over such a layout must be constructible in a const / static
//! initialiser like one over a shipped layout.
#![no_std]
use pc_keyboard::{DecodedKey, HandleControl, KeyCode, KeyboardLayout, Modifiers};

pub struct BigLayout(pub [[char; 1024]; 3]);

impl BigLayout {
    pub const fn filled(c: char) -> BigLayout {
        BigLayout([[c; 1024]; 3])
    }
}

impl KeyboardLayout for BigLayout {
    fn map_keycode(&self, keycode: KeyCode, modifiers: &Modifiers, _handle_ctrl: HandleControl) -> DecodedKey {
        let level = if modifiers.is_altgr() {
            2
        } else if modifiers.is_shifted() {
            1
        } else {
            0
        };
        DecodedKey::Unicode(self.0[level][keycode as usize % 1024])
    }
}
