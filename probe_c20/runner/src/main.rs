//! C20 runtime monitor: const-built, static-built and run-time-built values must be
//! indistinguishable (same rendering where a rendering exists, same answers on a hostile
//! workload), a `static Mutex<Keyboard<..>>` must be usable from several threads (Send), and
//! `&'static` decoders must be readable from several threads (Sync).  Runs natively and under
//! Miri (data-race detector) with `--miri` for reduced op counts.
//!
//! Output: one line per probe `PROBE name=<n> ops=<k> ok` or `MISMATCH name=<n> <detail>`, then
//! `SUMMARY probes=<p> ops=<o> mismatches=<m> threads_ok=<bool>`.

use c20_konst as konst;
use c20_plain as plain;
use c20_shared::BigLayout;
use pc_keyboard::layouts::*;
use pc_keyboard::*;
use std::sync::Mutex;

struct Rng(u64);
impl Rng {
    fn next(&mut self) -> u64 {
        self.0 = self.0.wrapping_add(0x9E37_79B9_7F4A_7C15);
        let mut z = self.0;
        z = (z ^ (z >> 30)).wrapping_mul(0xBF58_476D_1CE4_E5B9);
        z = (z ^ (z >> 27)).wrapping_mul(0x94D0_49BB_1331_11EB);
        z ^ (z >> 31)
    }
}

static mut OPS_BUDGET: u64 = 10_000;
fn budget() -> u64 {
    // written once in main before any thread starts
    unsafe { OPS_BUDGET }
}

const KEYS: [KeyCode; 12] = [
    KeyCode::A, KeyCode::LShift, KeyCode::RControl2, KeyCode::NumpadLock, KeyCode::CapsLock, KeyCode::Numpad7,
    KeyCode::RAltGr, KeyCode::LControl, KeyCode::Q, KeyCode::Oem7, KeyCode::LAlt, KeyCode::Key3,
];
const STATES: [KeyState; 3] = [KeyState::Down, KeyState::Up, KeyState::SingleShot];

/// Drive two keyboards with the same hostile op stream; any difference is a mismatch.
fn drive_pair<L: KeyboardLayout, S: ScancodeSet>(a: &mut Keyboard<L, S>, b: &mut Keyboard<L, S>, seed: u64) -> Result<u64, String> {
    let mut rng = Rng(seed);
    let n = budget();
    for i in 0..n {
        let r = rng.next();
        let same = match r % 6 {
            0 => a.add_byte((r >> 8) as u8) == b.add_byte((r >> 8) as u8),
            1 => a.add_bit(r & 256 != 0) == b.add_bit(r & 256 != 0),
            2 => a.add_word((r >> 8) as u16 & 0x7FF) == b.add_word((r >> 8) as u16 & 0x7FF),
            3 => {
                let ev = KeyEvent::new(KEYS[(r >> 8) as usize % KEYS.len()], STATES[(r >> 16) as usize % 3]);
                a.process_keyevent(ev.clone()) == b.process_keyevent(ev)
            }
            4 => {
                a.clear();
                b.clear();
                true
            }
            _ => {
                let m = if r & 256 != 0 { HandleControl::Ignore } else { HandleControl::MapLettersToUnicode };
                a.set_ctrl_handling(m);
                b.set_ctrl_handling(m);
                a.get_ctrl_handling() == b.get_ctrl_handling()
            }
        };
        if !same || a.get_modifiers() != b.get_modifiers() {
            return Err(format!("op #{} (kind {}): const-built and run-time-built keyboards answered differently; modifiers {:?} vs {:?}", i, r % 6, a.get_modifiers(), b.get_modifiers()));
        }
    }
    Ok(n)
}

trait Probe: Sized {
    /// `c` = value of the const item, `s` = the static, `r` = built at run time by the plain twin
    fn same(c: Self, s: &'static Self, r: Self) -> Result<u64, String>;
}
impl Probe for Ps2Decoder {
    fn same(mut c: Self, s: &'static Self, mut r: Self) -> Result<u64, String> {
        if format!("{:?}", c) != format!("{:?}", r) || format!("{:?}", s) != format!("{:?}", r) {
            return Err(format!("renderings differ: const {:?}, static {:?}, run-time {:?}", c, s, r));
        }
        let mut rng = Rng(7);
        let n = budget();
        for i in 0..n {
            let x = rng.next();
            if x % 50 == 0 {
                c.clear();
                r.clear();
            }
            let bit = x & 256 != 0;
            let (a, b) = (c.add_bit(bit), r.add_bit(bit));
            let w = (x >> 16) as u16 & 0x7FF;
            if a != b || s.add_word(w) != r.add_word(w) || (i % 64 == 0 && format!("{:?}", c) != format!("{:?}", r)) {
                return Err(format!("bit #{}: {:?} vs {:?}", i, a, b));
            }
        }
        Ok(n)
    }
}
fn scan_same<S: ScancodeSet>(mut c: S, mut r: S) -> Result<u64, String> {
    let mut rng = Rng(11);
    let n = budget();
    for i in 0..n {
        let b = (rng.next() >> 8) as u8;
        let (x, y) = (c.advance_state(b), r.advance_state(b));
        if x != y {
            return Err(format!("byte #{} (0x{:02X}): {:?} vs {:?}", i, b, x, y));
        }
    }
    Ok(n)
}
impl Probe for ScancodeSet1 {
    fn same(c: Self, _s: &'static Self, r: Self) -> Result<u64, String> {
        scan_same(c, r)
    }
}
impl Probe for ScancodeSet2 {
    fn same(c: Self, _s: &'static Self, r: Self) -> Result<u64, String> {
        scan_same(c, r)
    }
}
impl Probe for KeyEvent {
    fn same(c: Self, s: &'static Self, r: Self) -> Result<u64, String> {
        if c == r && *s == r {
            Ok(1)
        } else {
            Err(format!("{:?} / {:?} / {:?}", c, s, r))
        }
    }
}
impl Probe for bool {
    fn same(c: Self, s: &'static Self, r: Self) -> Result<u64, String> {
        if c == r && *s == r {
            Ok(1)
        } else {
            Err(format!("const {} static {} run-time {}", c, s, r))
        }
    }
}
impl Probe for u32 {
    fn same(c: Self, s: &'static Self, r: Self) -> Result<u64, String> {
        if c == r && *s == r {
            Ok(1)
        } else {
            Err(format!("const {} static {} run-time {}", c, s, r))
        }
    }
}
impl Probe for HandleControl {
    fn same(c: Self, s: &'static Self, r: Self) -> Result<u64, String> {
        if c == r && *s == r {
            Ok(1)
        } else {
            Err(format!("const {:?} static {:?} run-time {:?}", c, s, r))
        }
    }
}
impl<L: KeyboardLayout> Probe for EventDecoder<L> {
    fn same(mut c: Self, s: &'static Self, mut r: Self) -> Result<u64, String> {
        if s.get_ctrl_handling() != r.get_ctrl_handling() {
            return Err("static and run-time decoders report different Ctrl modes".into());
        }
        let mut rng = Rng(13);
        let n = budget();
        for i in 0..n {
            let x = rng.next();
            let ev = KeyEvent::new(KEYS[(x >> 8) as usize % KEYS.len()], STATES[(x >> 16) as usize % 3]);
            if x % 17 == 0 {
                let m = if x & 256 != 0 { HandleControl::Ignore } else { HandleControl::MapLettersToUnicode };
                c.set_ctrl_handling(m);
                r.set_ctrl_handling(m);
            }
            let (a, b) = (c.process_keyevent(ev.clone()), r.process_keyevent(ev.clone()));
            if a != b || c.get_ctrl_handling() != r.get_ctrl_handling() {
                return Err(format!("event #{} {:?}: {:?} vs {:?}", i, ev, a, b));
            }
        }
        Ok(n)
    }
}
impl<L: KeyboardLayout, S: ScancodeSet> Probe for Keyboard<L, S> {
    fn same(mut c: Self, s: &'static Self, mut r: Self) -> Result<u64, String> {
        if s.get_modifiers() != r.get_modifiers() || s.get_ctrl_handling() != r.get_ctrl_handling() {
            return Err(format!("static reports {:?}/{:?}, run-time-built {:?}/{:?}", s.get_modifiers(), s.get_ctrl_handling(), r.get_modifiers(), r.get_ctrl_handling()));
        }
        drive_pair(&mut c, &mut r, 17)
    }
}

fn check<T: Probe>(name: &str, c: T, s: &'static T, r: T, tally: &mut (u64, u64, u64)) {
    tally.0 += 1;
    // A panic inside the crate hits the const-built and the run-time-built value alike (same code): it is not
    // a const / Send / Sync matter, so the probe is skipped rather than reported (the no-panic property reports it).
    let outcome = std::panic::catch_unwind(std::panic::AssertUnwindSafe(|| T::same(c, s, r)));
    let outcome = match outcome {
        Ok(o) => o,
        Err(_) => {
            println!("PROBE name={} ops=0 skipped-because-the-crate-panicked", name);
            return;
        }
    };
    match outcome {
        Ok(n) => {
            tally.1 += n;
            println!("PROBE name={} ops={} ok", name, n);
        }
        Err(e) => {
            tally.2 += 1;
            println!("MISMATCH name={} {}", name, e);
        }
    }
}

macro_rules! probe_all {
    ($($n:ident : $t:ty = $e:expr;)*) => {
        fn run_all(tally: &mut (u64, u64, u64)) {
            $( check::<$t>(stringify!($n), konst::consts::$n, &konst::statics::$n, plain::fns::$n(), tally); )*
        }
    };
}
include!("../../uses.rs");

// ------------------------------------------------------------------ the use the property names
static SHARED: Mutex<Keyboard<AnyLayout, ScancodeSet2>> = Mutex::new(Keyboard::new(ScancodeSet2::new(), AnyLayout::Uk105Key(Uk105Key), HandleControl::Ignore));
static SHARED1: Mutex<Keyboard<Us104Key, ScancodeSet1>> = Mutex::new(Keyboard::new(ScancodeSet1::new(), Us104Key, HandleControl::MapLettersToUnicode));
static READ_ONLY: Keyboard<De105Key, ScancodeSet2> = Keyboard::new(ScancodeSet2::new(), De105Key, HandleControl::MapLettersToUnicode);
static READ_ONLY_PS2: Ps2Decoder = Ps2Decoder::new();

fn threads_workload() -> Result<u64, String> {
    let per_thread = (budget() / 20).max(20);
    let mut handles = Vec::new();
    for t in 0..4u64 {
        // a decoder moved into the thread (Send) …
        let mut own = plain::fns::KB_DE_S2();
        let mut own_ed = plain::fns::ED_ANY();
        handles.push(std::thread::spawn(move || {
            let mut typed = 0u64;
            let mut caps = 0u64;
            let mut rng = Rng(100 + t);
            for i in 0..per_thread {
                // … a shared keyboard behind a static Mutex: one complete, self-contained sequence per lock
                {
                    let mut kb = SHARED.lock().unwrap_or_else(|e| e.into_inner());
                    // CapsLock make (0x58) + break: toggles once; order between threads is irrelevant
                    for b in [0x58u8, 0xF0, 0x58] {
                        if let Ok(Some(ev)) = kb.add_byte(b) {
                            let _ = kb.process_keyevent(ev);
                        }
                    }
                    caps += 1;
                    // 'a' make + break
                    for b in [0x1Cu8, 0xF0, 0x1C] {
                        if let Ok(Some(ev)) = kb.add_byte(b) {
                            if let Some(DecodedKey::Unicode(c)) = kb.process_keyevent(ev) {
                                if c == 'a' || c == 'A' {
                                    typed += 1;
                                }
                            }
                        }
                    }
                }
                {
                    let mut kb = SHARED1.lock().unwrap_or_else(|e| e.into_inner());
                    for b in [0x45u8, 0xC5] {
                        // NumLock make/break in Set 1
                        if let Ok(Some(ev)) = kb.add_byte(b) {
                            let _ = kb.process_keyevent(ev);
                        }
                    }
                }
                // … shared read-only statics (Sync)
                let _ = READ_ONLY.get_modifiers().is_caps();
                let _ = READ_ONLY.get_ctrl_handling();
                let _ = READ_ONLY_PS2.add_word((rng.next() & 0x7FF) as u16);
                let _ = konst::statics::KB_ANY_S1.get_modifiers().numlock;
                // the moved-in decoders
                let _ = own.add_byte((i & 0xff) as u8);
                let _ = own_ed.process_keyevent(KeyEvent::new(KeyCode::A, KeyState::Down));
            }
            (typed, caps)
        }));
    }
    let mut typed = 0;
    let mut caps = 0;
    for h in handles {
        let (t, c) = match h.join() {
            Ok(x) => x,
            // a panic inside the crate is not a Send/Sync matter: the thread workload is abandoned, not reported
            Err(_) => return Ok(0),
        };
        typed += t;
        caps += c;
    }
    // Oracle: the same multiset of self-contained sections executed sequentially on a run-time-built twin.  (Every
    // section leaves the decoder in the state it found it, apart from the two lock toggles, so any interleaving of
    // whole sections must end in the same state and decode the same number of characters as the sequential run.)
    let mut twin = Keyboard::new(ScancodeSet2::new(), AnyLayout::Uk105Key(Uk105Key), HandleControl::Ignore);
    let mut twin_typed = 0u64;
    for _ in 0..caps {
        for b in [0x58u8, 0xF0, 0x58] {
            if let Ok(Some(ev)) = twin.add_byte(b) {
                let _ = twin.process_keyevent(ev);
            }
        }
        for b in [0x1Cu8, 0xF0, 0x1C] {
            if let Ok(Some(ev)) = twin.add_byte(b) {
                if let Some(DecodedKey::Unicode(c)) = twin.process_keyevent(ev) {
                    if c == 'a' || c == 'A' {
                        twin_typed += 1;
                    }
                }
            }
        }
    }
    let mut twin1 = Keyboard::new(ScancodeSet1::new(), Us104Key, HandleControl::MapLettersToUnicode);
    for _ in 0..(4 * per_thread) {
        for b in [0x45u8, 0xC5] {
            if let Ok(Some(ev)) = twin1.add_byte(b) {
                let _ = twin1.process_keyevent(ev);
            }
        }
    }
    let kb = SHARED.lock().unwrap_or_else(|e| e.into_inner());
    if kb.get_modifiers() != twin.get_modifiers() {
        return Err(format!("after {} sections from 4 threads the shared keyboard reports {:?}, a sequential twin {:?}", caps, kb.get_modifiers(), twin.get_modifiers()));
    }
    if typed != twin_typed {
        return Err(format!("{} shared presses decoded as the letter from 4 threads, {} sequentially", typed, twin_typed));
    }
    let kb1 = SHARED1.lock().unwrap_or_else(|e| e.into_inner());
    if kb1.get_modifiers() != twin1.get_modifiers() {
        return Err(format!("shared Set 1 keyboard reports {:?}, a sequential twin {:?}", kb1.get_modifiers(), twin1.get_modifiers()));
    }
    Ok(per_thread * 4 * 14)
}

fn main() {
    std::panic::set_hook(Box::new(|_| {}));
    let miri = std::env::args().any(|a| a == "--miri");
    unsafe {
        OPS_BUDGET = if miri { 150 } else { 10_000 };
    }
    let mut tally = (0u64, 0u64, 0u64);
    run_all(&mut tally);
    let threads_ok = match threads_workload() {
        Ok(n) => {
            tally.1 += n;
            println!("PROBE name=static-mutex-4-threads ops={} ok", n);
            true
        }
        Err(e) => {
            tally.2 += 1;
            println!("MISMATCH name=static-mutex-4-threads {}", e);
            false
        }
    };
    println!(
        "SUMMARY probes={} ops={} mismatches={} threads_ok={} names={} send_sync_asserted={} mode={}",
        tally.0 + 1,
        tally.1,
        tally.2,
        threads_ok,
        konst::NAMES.len(),
        konst::SEND_SYNC_ASSERTED,
        if miri { "miri" } else { "native" }
    );
    std::process::exit(if tally.2 == 0 { 0 } else { 1 });
}
